// C11 child: configure a synchronous logger with a file sink, log n messages, then die by qFatal.
// usage: c11child <dir> <cfg: fluent|nested|oneline|ini> <sink: file|rotbig|rotsmall|rotdaily> <thread: main|sec> <n> <size>
#include <QCoreApplication>
#include <QThread>
#include <sys/resource.h>
#include <thread>
#include "qtlogger/qtlogger.h"

static void work(int n, int size)
{
    QByteArray pay(size, 'x');
    for (int i = 0; i < n; i++) {
        if (i % 2) qWarning("m%d:%s", i, pay.constData());
        else qDebug("m%d:%s", i, pay.constData());
    }
    qFatal("FATAL:%s", pay.constData());
}

int main(int argc, char **argv)
{
    struct rlimit rl = { 0, 0 };
    setrlimit(RLIMIT_CORE, &rl);
    QCoreApplication app(argc, argv);
    if (argc < 7) return 2;
    QString dir = QString::fromLocal8Bit(argv[1]);
    QString cfg = argv[2], sink = argv[3], thr = argv[4];
    int n = atoi(argv[5]), size = atoi(argv[6]);
    QString path = dir + "/app.log";
    int L = 0, N = 0;
    QtLogger::RotatingFileSink::Options opts = QtLogger::RotatingFileSink::None;
    if (sink == "rotbig") L = 50 * 1024 * 1024;
    else if (sink == "rotsmall") L = 1;                      // every record after the first rotates: the fatal one too
    else if (sink == "rotdaily") opts = QtLogger::RotatingFileSink::RotationDaily;
    if (cfg == "fluent") {
        gQtLogger.format("%{type} %{message}").sendToFile(path, L, N, opts);
        gQtLogger.installMessageHandler();
    } else if (cfg == "nested") {
        gQtLogger.pipeline().format("%{type} %{message}").sendToFile(path, L, N, opts).end();
        gQtLogger.installMessageHandler();
    } else if (cfg == "oneline") {
        gQtLogger.configure(path, L, N, opts, /* async */ false);
    } else if (cfg == "ini") {
        QSettings s(dir + "/cfg.ini", QSettings::IniFormat);
        s.setValue("logger/path", path);
        s.setValue("logger/message_pattern", "%{type} %{message}");
        if (L > 0) s.setValue("logger/max_file_size", L);
        s.setValue("logger/max_file_count", N);
        if (sink == "rotdaily") s.setValue("logger/rotate_daily", true);
        s.setValue("logger/async", false);
        s.sync();
        gQtLogger.configure(s);
    } else return 2;
    if (thr == "main") work(n, size);
    else { std::thread t([&] { work(n, size); }); t.join(); }
    return 0; // not reached
}
