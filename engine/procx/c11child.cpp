// C11 child: configure a synchronous logger with file sink(s), log a sequence of records of given lengths, die by qFatal.
// usage: c11child <dir> <cfg> <sink> <thread: main|sec> <len,len,...,len>     (the last length is the fatal record's)
//   cfg : fluent | nested | oneline | ini | brokenfirst | fullfirst | twofiles | stderrfirst
//         filtered  : a sub-pipeline with its own file (trace.log) behind a filter that lets the ordinary records through but not the fatal one
//         dupfatal  : a duplicate filter in front of the sink, and the fatal message repeats the text of the record before it
//         slowother : another thread is inside a slow handler (1.5 s) when the fatal message is raised
//   sink: file | rotbig | rot1 (1-byte limit: every record rotates) | rot2 (limit = 40 bytes: a few records per file) | rotdaily
// Record i has the text "r<i>:" padded with 'x' to exactly the given length (>= 6).
#include <QCoreApplication>
#include <QThread>
#include <sys/resource.h>
#include <thread>
#include <vector>
#include "qtlogger/qtlogger.h"

static QByteArray text(int i, int len, bool fatal)
{
    if (len == 0) return QByteArray();   // an EMPTY message text (qFatal("%s", reason) with an empty reason): the record is a line of its own all the same
    QByteArray t = (fatal ? QByteArray("FATAL") : QByteArray("r") + QByteArray::number(i)) + ":";
    while (t.size() < len) t += 'x';
    return t;
}
static bool g_dupFatal = false;
static void work(const std::vector<int> &lens)
{
    for (size_t i = 0; i + 1 < lens.size(); i++) {
        QByteArray t = text(int(i), lens[i], false);
        if (i % 3 == 1) qWarning("%s", t.constData());
        else if (i % 3 == 2) qInfo("%s", t.constData());
        else qDebug("%s", t.constData());
    }
    if (g_dupFatal) qWarning("%s", text(0, lens.back(), true).constData());   // same text as the fatal message that follows
    qFatal("%s", text(0, lens.back(), true).constData());
}

int main(int argc, char **argv)
{
    struct rlimit rl = { 0, 0 };
    setrlimit(RLIMIT_CORE, &rl);
    QCoreApplication app(argc, argv);
    if (argc < 6) return 2;
    QString dir = QString::fromLocal8Bit(argv[1]);
    QString cfg = argv[2], sink = argv[3], thr = argv[4];
    std::vector<int> lens;
    for (auto &p : QString(argv[5]).split(',', Qt::SkipEmptyParts)) lens.push_back(p.toInt());
    if (lens.empty()) return 2;
    QString path = dir + "/app.log";
    int L = 0, N = 0;
    QtLogger::RotatingFileSink::Options opts = QtLogger::RotatingFileSink::None;
    if (sink == "rotbig") L = 50 * 1024 * 1024;
    else if (sink == "rot1") L = 1;                      // every record after the first rotates: the fatal one too
    else if (sink == "rot2") L = 40;
    else if (sink == "rotdaily") opts = QtLogger::RotatingFileSink::RotationDaily;
    const QString pat = QStringLiteral("%{type} %{message}");
    if (cfg == "fluent") {
        gQtLogger.format(pat).sendToFile(path, L, N, opts);
        gQtLogger.installMessageHandler();
    } else if (cfg == "nested") {
        gQtLogger.pipeline().format(pat).sendToFile(path, L, N, opts).end();
        gQtLogger.installMessageHandler();
    } else if (cfg == "brokenfirst") {                   // an earlier file sink cannot even open its file
        gQtLogger.format(pat).sendToFile(dir + "/no-such-dir/broken.log").sendToFile(path, L, N, opts);
        gQtLogger.installMessageHandler();
    } else if (cfg == "fullfirst") {                     // an earlier file sink sits on a full device: every flush fails
        gQtLogger.format(pat).sendToFile(QStringLiteral("/dev/full")).pipeline().sendToFile(path, L, N, opts).end();
        gQtLogger.installMessageHandler();
    } else if (cfg == "twofiles") {                      // two healthy file sinks, the second inside a sub-pipeline
        gQtLogger.format(pat).sendToFile(dir + "/second.log").pipeline().sendToFile(path, L, N, opts).end();
        gQtLogger.installMessageHandler();
    } else if (cfg == "filtered") {
        gQtLogger.format(pat).pipeline().filter(QStringLiteral("^r[0-9]")).sendToFile(dir + "/trace.log").end().sendToFile(path, L, N, opts);
        gQtLogger.installMessageHandler();
    } else if (cfg == "dupfatal") {
        g_dupFatal = true;
        gQtLogger.filterDuplicate().format(pat).sendToFile(path, L, N, opts);
        gQtLogger.installMessageHandler();
    } else if (cfg == "slowother") {
        gQtLogger.handler([](QtLogger::LogMessage &m) { if (m.message().startsWith(QLatin1String("slow"))) QThread::msleep(1500); return true; })
                 .format(pat).sendToFile(path, L, N, opts);
        gQtLogger.installMessageHandler();
        std::thread slow([] { qDebug("slow:handler"); });
        QThread::msleep(200);             // the other thread is inside the logger now
        if (thr == "main") work(lens);
        else { std::thread t([&] { work(lens); }); t.join(); }
        slow.join();
        return 0; // not reached
    } else if (cfg == "stderrfirst") {
        gQtLogger.format(pat).sendToStdErr().sendToFile(path, L, N, opts);
        gQtLogger.installMessageHandler();
    } else if (cfg == "oneline") {
        gQtLogger.configure(path, L, N, opts, /* async */ false);
    } else if (cfg == "ini") {
        QSettings s(dir + "/cfg.ini", QSettings::IniFormat);
        s.setValue("logger/path", path);
        s.setValue("logger/message_pattern", pat);
        if (L > 0) s.setValue("logger/max_file_size", L);
        s.setValue("logger/max_file_count", N);
        if (sink == "rotdaily") s.setValue("logger/rotate_daily", true);
        s.setValue("logger/async", false);
        s.sync();
        gQtLogger.configure(s);
    } else return 2;
    if (thr == "main") work(lens);
    else { std::thread t([&] { work(lens); }); t.join(); }
    return 0; // not reached
}
