// C04 on the REAL Qt (no model): one shutdown path per process, slow sink, backlog accepted right before the stop.
// usage: c04real <path 1..5> <backlog> <outfile> [bare]
//   1 exec() returns (quit posted)  2 explicit resetOwnThread  3 destructor, app alive (heap logger deleted)
//   4 singleton destroyed at exit after the stack QCoreApplication is gone, exec() never ran   5 as 4, after exec() ran
// The sink appends "<text>@<main|other>\n" to outfile (unbuffered); the parent checks delivered == accepted and the exit time.
#include <QCoreApplication>
#include <QFile>
#include <QThread>
#include <QTimer>
#include "qtlogger/qtlogger.h"

using namespace QtLogger;

static QString g_out;
static Qt::HANDLE g_main;
struct SlowSink : Sink {
    void send(const LogMessage &m) override
    {
        QThread::msleep(30);
        QFile f(g_out);
        if (f.open(QIODevice::WriteOnly | QIODevice::Append)) {
            f.write(m.message().toUtf8() + (QThread::currentThreadId() == g_main ? "@main\n" : "@other\n"));
            f.close();
        }
    }
};

int main(int argc, char **argv)
{
    if (argc < 4) return 2;
    int path = atoi(argv[1]), backlog = atoi(argv[2]);
    g_out = QString::fromLocal8Bit(argv[3]);
    g_main = QThread::currentThreadId();
    QCoreApplication app(argc, argv);
    Logger *lg = (path == 3) ? new Logger : Logger::instance();
    lg->append(SinkPtr(new SlowSink));
    lg->moveToOwnThread();
    lg->installMessageHandler();
    for (int i = 0; i < backlog; i++) qDebug("m%d", i);
    switch (path) {
    case 1: QTimer::singleShot(0, &app, &QCoreApplication::quit); app.exec(); break;
    case 2: lg->resetOwnThread(); break;
    case 3: delete lg; break;
    case 4: break;                       // return without exec(): ~QCoreApplication, then the singleton's destructor at exit
    case 5: QTimer::singleShot(0, &app, &QCoreApplication::quit); app.exec(); qDebug("late"); break;
    }
    if (path == 1 || path == 2) qDebug("late"); // after the stop: must be handled synchronously
    return 0;
}
