// C04 on the REAL Qt (no model): one shutdown path per process, slow sink, backlog accepted right before the stop.
// usage: c04real <path 1..5> <backlog> <outfile> [bare]
//   1 exec() returns (quit posted)  2 explicit resetOwnThread  3 destructor, app alive (heap logger deleted)
//   4 singleton destroyed at exit after the stack QCoreApplication is gone, exec() never ran   5 as 4, after exec() ran
// The sink appends "<text>@<main|other>\n" to outfile (unbuffered); the parent checks delivered == accepted and the exit time.
#include <QCoreApplication>
#include <QFile>
#include <QThread>
#include <QTimer>
#include <QEventLoop>
#include <string>
#include "qtlogger/qtlogger.h"

using namespace QtLogger;

static QString g_out;
static Qt::HANDLE g_main;
struct SlowSink : Sink {
    void send(const LogMessage &m) override
    {
        QThread::msleep(30);
        QFile f(g_out);
        if (f.open(QIODevice::WriteOnly | QIODevice::Append)) {
            f.write(m.message().toUtf8() + (QThread::currentThreadId() == g_main ? "@main\n" : "@other\n"));
            f.close();
        }
    }
};

// history mode: c04real hist <ops> <outfile> [pause-ms]   ops as in engine/vsched/vsx.cpp (A a M L R X E), then the handler is destroyed.
// A pause after every operation lets the worker run ahead (the schedule in which Qt discards events of an application-less thread).
static int historyMode(int argc, char **argv)
{
    std::string hist = argv[2];
    g_out = QString::fromLocal8Bit(argv[3]);
    int pause = argc > 4 ? atoi(argv[4]) : 60;
    g_main = QThread::currentThreadId();
    QCoreApplication *app = nullptr;
    Logger *lg = new Logger;
    lg->append(SinkPtr(new SlowSink));
    int seq = 0;
    static int ac = 1; static char *av[] = { argv[0], nullptr };
    for (char op : hist) {
        switch (op) {
        case 'A': if (!app) app = new QCoreApplication(ac, av); break;
        case 'a': delete app; app = nullptr; break;
        case 'M': lg->moveToOwnThread(); break;
        case 'L': { QMessageLogContext ctx("f.cpp", 1, "fn", "cat"); lg->processMessage(QtDebugMsg, ctx, QStringLiteral("m%1").arg(seq++)); break; }
        case 'R': lg->resetOwnThread(); break;
        case 'X': if (app) { QTimer::singleShot(0, app, &QCoreApplication::quit); app->exec(); } break;
        case 'E': if (app) { QEventLoop loop; QTimer::singleShot(30, &loop, &QEventLoop::quit); loop.exec(); } break;
        }
        QThread::msleep(pause);
    }
    delete lg;
    delete app;
    return 0;
}

int main(int argc, char **argv)
{
    if (argc >= 4 && std::string(argv[1]) == "hist") return historyMode(argc, argv);
    if (argc < 4) return 2;
    int path = atoi(argv[1]), backlog = atoi(argv[2]);
    g_out = QString::fromLocal8Bit(argv[3]);
    g_main = QThread::currentThreadId();
    QCoreApplication app(argc, argv);
    Logger *lg = (path == 3) ? new Logger : Logger::instance();
    lg->append(SinkPtr(new SlowSink));
    lg->moveToOwnThread();
    lg->installMessageHandler();
    for (int i = 0; i < backlog; i++) qDebug("m%d", i);
    switch (path) {
    case 1: QTimer::singleShot(0, &app, &QCoreApplication::quit); app.exec(); break;
    case 2: lg->resetOwnThread(); break;
    case 3: delete lg; break;
    case 4: break;                       // return without exec(): ~QCoreApplication, then the singleton's destructor at exit
    case 5: QTimer::singleShot(0, &app, &QCoreApplication::quit); app.exec(); qDebug("late"); break;
    }
    if (path == 1 || path == 2) qDebug("late"); // after the stop: must be handled synchronously
    return 0;
}
