// qtconf: binds the vqt model (engine/vsched/vqt.cpp, rules R1..R11 of DESIGN.md) to the INSTALLED Qt. One deterministic
// mini-program per rule on the real QThread / QCoreApplication / QObject; prints "Rn ok" or "Rn FAIL <detail>" per rule and exits
// non-zero if any rule the model relies on does not hold here. Run by every vsched check; a failure is an engine error.
// usage: qtconf <rule-group: a|b|c>     (a: rules that need no application object at first; b, c: separate processes because a
//                                        QCoreApplication can only be created once per process in a meaningful way)
#include <QCoreApplication>
#include <QEvent>
#include <QMutex>
#include <QSemaphore>
#include <QThread>
#include <QTimer>
#include <atomic>
#include <cstdio>
#include <string>
#include <vector>

static int g_fail = 0;
static void verdict(const char *rule, bool ok, const std::string &detail = "")
{
    printf("%s %s %s\n", rule, ok ? "ok" : "FAIL", detail.c_str());
    if (!ok) g_fail++;
}

static const QEvent::Type EvT = QEvent::Type(QEvent::User + 7);
struct Ev : QEvent { int n; explicit Ev(int n) : QEvent(EvT), n(n) { } };

struct Rec : QObject {
    std::vector<int> got; Qt::HANDLE thread = nullptr;
    std::function<void(int)> hook;
    void customEvent(QEvent *e) override { if (e->type() == EvT) { int n = static_cast<Ev *>(e)->n; got.push_back(n); thread = QThread::currentThreadId(); if (hook) hook(n); } }
};

static std::string show(const std::vector<int> &v) { std::string s = "["; for (int x : v) s += std::to_string(x) + " "; return s + "]"; }

// ---- group a: starts WITHOUT an application object
static int groupA(int argc, char **argv)
{
    // R4: events for an object in a secondary thread are discarded (handler never called) while no QCoreApplication exists -
    //     and they stay lost when one is created later
    {
        QThread t; Rec *r = new Rec; r->moveToThread(&t); t.start();
        QCoreApplication::postEvent(r, new Ev(1)); QCoreApplication::postEvent(r, new Ev(2));
        QThread::msleep(150);
        bool none = r->got.empty();
        QCoreApplication app(argc, argv);
        QThread::msleep(100);
        bool stillNone = r->got.empty();
        QCoreApplication::postEvent(r, new Ev(3));
        QThread::msleep(150);
        verdict("R4", none && stillNone && r->got == std::vector<int>{ 3 }, "before app: " + std::to_string(none) + " after app: " + show(r->got));
        // R1: FIFO at equal priority
        for (int i = 10; i < 15; i++) QCoreApplication::postEvent(r, new Ev(i));
        QThread::msleep(150);
        verdict("R1", r->got == std::vector<int>({ 3, 10, 11, 12, 13, 14 }), show(r->got));
        // R5: a functor connected to finished without context runs in the finishing thread
        Qt::HANDLE finTid = nullptr, workerTid = r->thread;
        QObject::connect(&t, &QThread::finished, [&finTid] { finTid = QThread::currentThreadId(); });
        // R8: a connection with a context object dies with the context
        bool ctxCalled = false; QObject *ctx = new QObject;
        QObject::connect(&t, &QThread::finished, ctx, [&ctxCalled] { ctxCalled = true; });
        delete ctx;
        t.quit(); bool waited = t.wait(3000);
        app.processEvents();
        verdict("R5", waited && finTid == workerTid && finTid != QThread::currentThreadId());
        verdict("R8", !ctxCalled);
        delete r;
    }
    // R10: QMutex is not recursive
    { QMutex m; m.lock(); bool again = m.tryLock(); if (again) m.unlock(); m.unlock(); verdict("R10", !again); }
    return g_fail;
}

// ---- group b: event-loop batches, quit, deferred delete, aboutToQuit
static int groupB(int argc, char **argv)
{
    QCoreApplication app(argc, argv);
    // R2: a batch delivers exactly what was queued when it began; the exit flag is looked at between batches
    {
        QThread t; Rec *r = new Rec; r->moveToThread(&t);
        QSemaphore gate;
        r->hook = [&](int n) { if (n == 1) { gate.acquire(); } };   // hold the loop inside the first handler
        t.start();
        for (int i = 1; i <= 4; i++) QCoreApplication::postEvent(r, new Ev(i));
        QThread::msleep(100);                                        // the worker is inside handler 1, 2..4 queued in the same batch
        QCoreApplication::postEvent(r, new Ev(5));                    // posted during the batch
        t.quit();
        gate.release();
        bool waited = t.wait(3000);
        bool glib = qEnvironmentVariableIsEmpty("QT_NO_GLIB");
        // 1..4 always; 5 only if it still made it into the running batch's snapshot (it cannot: posted after the batch began) - accept [1..4] and, for glib, [1..5]
        bool ok = waited && (r->got == std::vector<int>({ 1, 2, 3, 4 }) || (glib && r->got == std::vector<int>({ 1, 2, 3, 4, 5 })));
        verdict("R2", ok, show(r->got));
        delete r;
    }
    // R2': idle loop, post 3 events, quit(): glib dispatches the pending batch before exec() re-checks the flag, the unix dispatcher may not
    {
        QThread t; Rec *r = new Rec; r->moveToThread(&t); t.start();
        QThread::msleep(100);
        for (int i = 1; i <= 3; i++) QCoreApplication::postEvent(r, new Ev(i));
        t.quit(); t.wait(3000);
        bool glib = qEnvironmentVariableIsEmpty("QT_NO_GLIB");
        size_t n = r->got.size();
        verdict("R2'", glib ? n == 3 : (n == 0 || n == 3), std::string(glib ? "glib " : "unix ") + show(r->got));
        delete r;
    }
    // R3: quit() before start() is lost (start() clears the flag)
    {
        QThread t; Rec *r = new Rec; r->moveToThread(&t);
        t.quit(); t.start();
        QCoreApplication::postEvent(r, new Ev(1));
        QThread::msleep(150);
        bool running = t.isRunning();
        verdict("R3", running && r->got == std::vector<int>{ 1 }, show(r->got));
        t.quit(); t.wait(3000); delete r;
    }
    // R9: deleteLater() outside a running loop is not carried out by processEvents(), only once a loop executes
    {
        static bool gone; gone = false;
        struct D : QObject { ~D() override { gone = true; } };
        D *d = new D; d->deleteLater();
        app.processEvents(); app.processEvents();
        bool afterProcessEvents = gone;
        // R7: aboutToQuit is emitted when exec() returns
        int quits = 0; QObject::connect(&app, &QCoreApplication::aboutToQuit, [&quits] { quits++; });
        QTimer::singleShot(0, &app, &QCoreApplication::quit);
        app.exec();
        verdict("R9", !afterProcessEvents && gone);
        verdict("R7", quits == 1);
    }
    // R6: wait(ms) returns false when the thread does not finish in time
    {
        QThread t; Rec *r = new Rec; r->moveToThread(&t); QSemaphore gate;
        r->hook = [&](int) { gate.acquire(); };
        t.start(); QCoreApplication::postEvent(r, new Ev(1)); QThread::msleep(50);
        t.quit(); bool w = t.wait(100);
        gate.release(); t.wait(3000);
        verdict("R6", !w);
        delete r;
    }
    return g_fail;
}

// ---- group c: aboutToQuit is NOT emitted by the destructor of an application object whose exec() never ran
static int groupC(int argc, char **argv)
{
    int quits = 0;
    { QCoreApplication app(argc, argv); QObject::connect(&app, &QCoreApplication::aboutToQuit, [&quits] { quits++; }); }
    verdict("R7b", quits == 0);
    return g_fail;
}

int main(int argc, char **argv)
{
    std::string g = argc > 1 ? argv[1] : "a";
    int rc = g == "a" ? groupA(argc, argv) : g == "b" ? groupB(argc, argv) : groupC(argc, argv);
    fflush(stdout);
    return rc ? 1 : 0;
}
