// C19 child: one configuration front-end per process, a fixed message stream through Qt's logging macros, orderly stop.
// usage: c19child ini <inifile> <run>                      gQtLogger.configureFromIniFile(inifile)
//        c19child settings <inifile> <run>                 QSettings object + gQtLogger.configure(settings)
//        c19child inig <inifile> <run>                     the keys live in group [audit]: configureFromIniFile(inifile, "audit"); [logger] holds decoy keys
//        c19child inig2 <inifile> <run>                    as inig, after ANOTHER Logger object of this process was configured from the decoy group [logger]
//        c19child oneline <path|-> <size> <count> <optmask> <async 0|1> <run>
// stdout / stderr are captured by the parent (pipes or ptys); files are read back afterwards.
#include <QCoreApplication>
#include <QLoggingCategory>
#include <QSettings>
#include <cstring>
#include <thread>
#include "qtlogger/qtlogger.h"

Q_LOGGING_CATEGORY(lcNet, "net")
Q_LOGGING_CATEGORY(lcUi, "ui.main")

static void stream(int run)
{
    qCDebug(lcNet, "keep alpha");
    qCInfo(lcUi, "beta skip");
    qCWarning(lcNet, "keep gamma");
    qCritical("keep delta");
    qCInfo(lcNet, "keep eps");
    qCDebug(lcUi, "keep zeta %d", run);
    // ... and from a second thread, after the main thread's messages (joined: the order is fixed)
    std::thread t([] { qDebug("keep worker"); qCWarning(lcNet, "keep omega"); });
    t.join();
}

int main(int argc, char **argv)
{
    QCoreApplication app(argc, argv);
    if (argc < 4) return 2;
    std::string mode = argv[1];
    int run = 0;
    if (mode == "ini") { run = atoi(argv[3]); gQtLogger.configureFromIniFile(QString::fromLocal8Bit(argv[2])); }
    else if (mode == "inig" || mode == "inig2") {
        run = atoi(argv[3]);
        static QtLogger::Logger other;      // never installed, never fed: whatever it was configured with must stay its own business
        if (mode == "inig2") other.configureFromIniFile(QString::fromLocal8Bit(argv[2]), QStringLiteral("logger"));
        gQtLogger.configureFromIniFile(QString::fromLocal8Bit(argv[2]), QStringLiteral("audit"));
    }
    else if (mode == "settings") { run = atoi(argv[3]); QSettings s(QString::fromLocal8Bit(argv[2]), QSettings::IniFormat); gQtLogger.configure(s); }
    else if (mode == "oneline" && argc >= 8) {
        QString path = strcmp(argv[2], "-") ? QString::fromLocal8Bit(argv[2]) : QString();
        run = atoi(argv[7]);
        gQtLogger.configure(path, atoi(argv[3]), atoi(argv[4]), QtLogger::RotatingFileSink::Options(atoi(argv[5])), atoi(argv[6]) != 0);
    } else return 2;
    stream(run);
    gQtLogger.resetOwnThread();          // orderly stop of asynchronous logging (no-op when synchronous)
    gQtLogger.flush();
    QtLogger::Logger::restorePreviousMessageHandler();
    return 0;
}
