// One include for the whole library: from src/ (default) or from the amalgamated single header (C20 dual build).
// In the single-header build the moc output for the header is pulled into the same translation unit (the header defines a few
// non-inline functions, so it can only be included from one translation unit of a program).
#pragma once
#ifdef VERIF_QTLOGGER_H
#  include VERIF_QTLOGGER_H
#  ifdef VERIF_QTLOGGER_MOC
#    include VERIF_QTLOGGER_MOC
#  endif
#else
#  include "qtlogger/qtlogger.h"
#  include "qtlogger/sortedpipeline.h"
#endif
