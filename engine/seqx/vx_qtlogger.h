// One include for the whole library: from src/ (default) or from the amalgamated single header (C20 dual build).
#pragma once
#ifdef VERIF_QTLOGGER_H
#  include VERIF_QTLOGGER_H
#else
#  include "qtlogger/qtlogger.h"
#endif
