// Shared helpers for the bounded-exhaustive sequential explorers (engine seqx).
// Every explorer prints ONE JSON object on stdout (the summary the Python front-end turns into
// evidence) and writes nothing else there; diagnostics go to stderr.
#pragma once
#include <QtCore>
#include <cstdio>
#include <functional>
#include <map>
#include <set>
#include <string>
#include <vector>

namespace vx {

inline std::string jesc(const QString &s)
{
    std::string o;
    for (QChar qc : s) {
        ushort c = qc.unicode();
        if (c == '"') o += "\\\"";
        else if (c == '\\') o += "\\\\";
        else if (c < 0x20 || c > 0x7e) { char b[8]; snprintf(b, sizeof b, "\\u%04x", c); o += b; }
        else o += char(c);
    }
    return o;
}
inline std::string jesc(const std::string &s) { return jesc(QString::fromUtf8(s.c_str(), int(s.size()))); }
inline std::string jstr(const QString &s) { return "\"" + jesc(s) + "\""; }
inline std::string jstr(const std::string &s) { return "\"" + jesc(s) + "\""; }
inline std::string jstr(const char *s) { return jstr(std::string(s)); }

struct Violation { std::string key, what, replay; };

struct Summary {
    long long cases = 0, states = 0, transitions = 0, replays_ok = 0;
    std::set<std::string> outcomes;       // distinct observed outcomes (vacuity guard)
    std::map<std::string, long long> counters;
    std::vector<Violation> violations;    // at most a few per key
    std::map<std::string, int> perKey;
    long long violationCount = 0;
    std::vector<std::string> samples;     // already JSON
    bool exhaustive = true;
    std::string bound;
    unsigned long long digest = 1469598103934665603ULL; // FNV-1a over every (case -> observed output); used by C20
    // with VERIF_DUMP=<file> in the environment every (case => output) line is also written out, so that two builds whose digests
    // differ can be diffed down to the first differing case (C20)
    void digestAdd(const std::string &x)
    {
        for (unsigned char c : x) { digest ^= c; digest *= 1099511628211ULL; }
        digest ^= 0xff; digest *= 1099511628211ULL;
        static FILE *dump = getenv("VERIF_DUMP") ? fopen(getenv("VERIF_DUMP"), "w") : nullptr;
        if (dump) { fputs(jesc(x).c_str(), dump); fputc('\n', dump); }
    }

    void violate(const std::string &key, const std::string &what, const std::string &replayJson)
    {
        violationCount++;
        if (perKey[key]++ < 2 && violations.size() < 40) violations.push_back({ key, what, replayJson });
    }
    void sample(const std::string &json, size_t max = 6) { if (samples.size() < max) samples.push_back(json); }

    void print() const
    {
        std::string o = "{";
        o += "\"cases\":" + std::to_string(cases);
        o += ",\"states\":" + std::to_string(states);
        o += ",\"transitions\":" + std::to_string(transitions);
        o += ",\"replays_ok\":" + std::to_string(replays_ok);
        o += ",\"distinct_outcomes\":" + std::to_string(outcomes.size());
        o += ",\"exhaustive\":" + std::string(exhaustive ? "true" : "false");
        o += ",\"bound\":" + jstr(bound);
        o += ",\"digest\":\"" + std::to_string(digest) + "\"";
        o += ",\"violation_count\":" + std::to_string(violationCount);
        o += ",\"counters\":{";
        bool first = true;
        for (auto &kv : counters) { o += (first ? "" : ",") + jstr(kv.first) + ":" + std::to_string(kv.second); first = false; }
        o += "},\"violations\":[";
        first = true;
        for (auto &v : violations) {
            o += (first ? "" : ",");
            o += "{\"key\":" + jstr(v.key) + ",\"what\":" + jstr(v.what) + ",\"replay\":" + (v.replay.empty() ? "null" : v.replay) + "}";
            first = false;
        }
        o += "],\"samples\":[";
        first = true;
        for (auto &s : samples) { o += (first ? "" : ",") + s; first = false; }
        o += "]}";
        puts(o.c_str());
        fflush(stdout);
    }
};

inline int argInt(int argc, char **argv, const char *name, int def)
{
    for (int i = 1; i + 1 < argc; i++) if (!strcmp(argv[i], name)) return atoi(argv[i + 1]);
    return def;
}
inline const char *argStr(int argc, char **argv, const char *name, const char *def)
{
    for (int i = 1; i + 1 < argc; i++) if (!strcmp(argv[i], name)) return argv[i + 1];
    return def;
}

} // namespace vx
