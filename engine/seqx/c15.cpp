// C15: every rule list up to the bound over an alphabet of rule lines x every probed (category, type) on the real
// CategoryFilter, against an independent glob-based reference (no regular expressions) written from the property text;
// QLoggingCategory gives a second opinion on the sub-space Qt itself supports (wildcards at the ends only, '\n' separated).
#include "common.h"
#include "vx_qtlogger.h"
#include <QLoggingCategory>

using namespace QtLogger;

namespace {

const QtMsgType TYPES[5] = { QtDebugMsg, QtInfoMsg, QtWarningMsg, QtCriticalMsg, QtFatalMsg };
const char *TYN[5] = { "debug", "info", "warning", "critical", "fatal" };

// ---------------------------------------------------------------- reference (plain C++ strings, no regex)
bool globMatch(const std::string &pat, const std::string &s)
{
    // '*' = any (possibly empty) sequence of characters; everything else literal; whole-string match. Iterative with backtracking to the last star.
    size_t p = 0, i = 0, star = std::string::npos, mark = 0;
    while (i < s.size()) {
        if (p < pat.size() && pat[p] == '*') { star = p++; mark = i; }
        else if (p < pat.size() && pat[p] == s[i]) { p++; i++; }
        else if (star != std::string::npos) { p = star + 1; i = ++mark; }
        else return false;
    }
    while (p < pat.size() && pat[p] == '*') p++;
    return p == pat.size();
}
bool isSpace(char c) { return c == ' ' || c == '\t' || c == '\r' || c == '\f' || c == '\v' || c == '\n'; }
struct RefRule { std::string pat; int type; bool enabled; };   // type -1 = every type
// returns false for a malformed line (ignored)
bool parseLine(const std::string &line0, RefRule &r)
{
    size_t b = 0, e = line0.size();
    while (b < e && isSpace(line0[b])) b++;
    while (e > b && isSpace(line0[e - 1])) e--;
    std::string line = line0.substr(b, e - b);
    size_t eq = line.find('=');
    if (eq == std::string::npos || line.find('=', eq + 1) != std::string::npos) return false; // no '=' or several: malformed (several: left out of the alphabet anyway)
    std::string lhs = line.substr(0, eq), rhs = line.substr(eq + 1);
    while (!lhs.empty() && isSpace(lhs.back())) lhs.pop_back();
    size_t k = 0; while (k < rhs.size() && isSpace(rhs[k])) k++; rhs = rhs.substr(k);
    if (lhs.empty()) return false;
    for (char c : lhs) if (isSpace(c)) return false;
    if (rhs == "true") r.enabled = true; else if (rhs == "false") r.enabled = false; else return false;
    r.type = -1; r.pat = lhs;
    static const char *SUF[4] = { ".debug", ".info", ".warning", ".critical" };
    for (int t = 0; t < 4; t++) {
        std::string suf = SUF[t];
        if (lhs.size() > suf.size() && lhs.compare(lhs.size() - suf.size(), suf.size(), suf) == 0) { r.type = t; r.pat = lhs.substr(0, lhs.size() - suf.size()); break; }
    }
    return true;
}
std::vector<RefRule> parseRules(const std::string &text)
{
    std::vector<RefRule> out; std::string cur;
    auto flush = [&] { RefRule r; if (parseLine(cur, r)) out.push_back(r); cur.clear(); };
    for (char c : text) { if (c == ';' || c == '\n') flush(); else cur += c; }
    flush();
    return out;
}
bool refVerdict(const std::vector<RefRule> &rules, const std::string &cat, int type)
{
    bool en = true;   // a message no rule matches passes
    for (auto &r : rules) if ((r.type == -1 || r.type == type) && globMatch(r.pat, cat)) en = r.enabled;   // the last matching rule decides
    return en;
}

// ---------------------------------------------------------------- alphabets
std::vector<std::string> LINES, SMALL, CATS;
std::vector<bool> QT_OK_LINE;   // line is inside the sub-language QLoggingCategory supports

void init()
{
    const char *PAT[] = { "a", "a.b", "*", "a.*", "*.b", "a*", "*a*", "a*b", "a.*.c", "a+b", "a.b.c", "b", "(a)", "a|b", "a.", "[a]", "a?", "^a", "a$", "a\\b", "a{1}", "*.debug", "a.debug" };
    const char *SUF[] = { "", ".debug", ".info", ".warning", ".critical", ".fatal", ".Debug" };
    const char *VAL[] = { "true", "false" };
    for (auto p : PAT) for (auto s : SUF) for (auto v : VAL) {
        LINES.push_back(std::string(p) + s + "=" + v);
        std::string pp = p; bool mid = false;
        for (size_t i = 1; i + 1 < pp.size(); i++) if (pp[i] == '*') mid = true;
        // outside what QLoggingCategory supports / parses the same way: '*' in the middle, a backslash in the name, suffix look-alikes
        QT_OK_LINE.push_back(!mid && pp.find('\\') == std::string::npos && std::string(s) != ".fatal" && std::string(s) != ".Debug" && pp != "*.debug" && pp != "a.debug");
    }
    const char *WS[] = { " a = true ", "\ta.*=false\r", "a.b.info =  true", "  *  =false" };
    for (auto w : WS) { LINES.push_back(w); QT_OK_LINE.push_back(true); }
    const char *GARBAGE[] = { "", " ", "a", "=true", "a=", "a=maybe", "a b=true", "a=true false", "#a=false", "[Rules]", "a.debug", "true", "a=tru", "a=falsee", "a:false" };
    for (auto g : GARBAGE) { LINES.push_back(g); QT_OK_LINE.push_back(false); }
    SMALL = { "a=false", "a=true", "a.*=false", "*=false", "*=true", "a.debug=true", "a.debug=false", "*.critical=false", "a*=true", "*a*=false", "a.b=false", "a.b.warning=true",
              "a+b=false", "a.=false", "b=false", "*.b.info=false", "a*b=true", "a", "a=maybe", " a = false ", "a.*.c=false", "*.debug=false", "a.fatal=false", "(a)=false" };
    CATS = { "a", "a.b", "a.b.c", "b", "ab", "aab", "a+b", "aa", "a.debug", "x.a.y", "", "a.", "(a)", "a|b", "A", "a.c", "a*b", "[a]", "a?", "ab.b", "a.x.c", "a\\b", "a{1}", "a.fatal", "a$", "^a", "default" };
}

vx::Summary sum;
long long g_case = 0;

std::string jlist(const std::vector<std::string> &v) { std::string s = "["; for (size_t i = 0; i < v.size(); i++) s += (i ? "," : "") + vx::jstr(v[i]); return s + "]"; }

void checkText(const std::vector<std::string> &lines, const std::string &text, bool qtOk)
{
    CategoryFilter f(QString::fromStdString(text));
    auto rules = parseRules(text);
    sum.states++;
    std::string verdicts;
    QString qtRules;
    if (qtOk) { QLoggingCategory::setFilterRules(QString::fromStdString(text)); }
    for (size_t c = 0; c <= CATS.size(); c++) {
        bool nullCat = c == CATS.size();
        const std::string cat = nullCat ? std::string() : CATS[c];
        for (int t = 0; t < 5; t++) {
            QMessageLogContext ctx("f.cpp", 1, "fn", nullCat ? nullptr : cat.c_str());
            LogMessage m(TYPES[t], ctx, QStringLiteral("x"));
            bool got = f.filter(m), exp = refVerdict(rules, cat, t);
            sum.cases++; sum.transitions++;
            verdicts += got ? '1' : '0';
            sum.counters[got ? "pass" : "drop"]++;
            if (got != exp) {
                std::string shape = std::to_string(lines.size()) + (exp ? ":should-pass" : ":should-drop");
                sum.violate("verdict:" + shape, "rules " + jlist(lines) + " (text " + vx::jstr(text) + "), category " + vx::jstr(cat) + (nullCat ? " (null)" : "") + ", type " + TYN[t] + ": filter " + (got ? "passes" : "drops") + " but ordered evaluation " + (exp ? "passes" : "drops"),
                            "{\"kind\":\"c15\",\"rules\":" + vx::jstr(text) + ",\"category\":" + vx::jstr(cat) + ",\"type\":" + vx::jstr(TYN[t]) + "}");
            }
            if (qtOk && t < 4 && !nullCat && !cat.empty() && cat != "default") {
                QLoggingCategory lc(cat.c_str());
                bool q = lc.isEnabled(TYPES[t]);
                sum.counters["qt_second_opinion"]++;
                if (q != exp) { sum.counters["qt_second_opinion_disagrees_with_reference"]++; if (sum.samples.size() < 6) sum.sample("{\"qt_disagrees\":" + vx::jstr(text) + ",\"category\":" + vx::jstr(cat) + ",\"type\":" + vx::jstr(TYN[t]) + "}"); }
            }
        }
    }
    // second sweep on the same filter object, type by type: consecutive messages of the SAME type whose category names arrive in one
    // caller-owned buffer (same address, new contents) - what a producer with a reused buffer, or queued message copies whose freed
    // buffers the allocator hands out again, look like to the filter
    static char catBuf[64];
    for (int t = 0; t < 5; t++) for (size_t c = 0; c < CATS.size(); c++) {
        snprintf(catBuf, sizeof catBuf, "%s", CATS[c].c_str());
        QMessageLogContext ctx("f.cpp", 1, "fn", catBuf);
        LogMessage m(TYPES[t], ctx, QStringLiteral("x"));
        bool got = f.filter(m), exp = refVerdict(rules, CATS[c], t);
        sum.cases++; sum.transitions++; sum.counters["reused_buffer_cases"]++;
        verdicts += got ? '1' : '0';
        if (got != exp)
            sum.violate("verdict-reused-buffer:" + std::to_string(lines.size()), "rules " + jlist(lines) + " (text " + vx::jstr(text) + "), category " + vx::jstr(CATS[c]) + " handed over in a reused buffer right after category " + vx::jstr(c ? CATS[c - 1] : CATS.back()) + ", type " + TYN[t] + ": filter " + (got ? "passes" : "drops") + " but ordered evaluation " + (exp ? "passes" : "drops"),
                        "{\"kind\":\"c15\",\"rules\":" + vx::jstr(text) + ",\"category\":" + vx::jstr(CATS[c]) + ",\"type\":" + vx::jstr(TYN[t]) + ",\"reused_buffer\":true}");
    }
    sum.digestAdd(text + "=>" + verdicts);
    sum.outcomes.insert(verdicts.substr(0, 40));
}

std::string joinLines(const std::vector<std::string> &ls, int sepMode)
{
    // 0: '\n'   1: ';'   2: alternate   3: '\n' with an empty line and a trailing separator   4: ';' doubled
    std::string s;
    for (size_t i = 0; i < ls.size(); i++) {
        if (i) s += sepMode == 0 ? "\n" : sepMode == 1 ? ";" : sepMode == 2 ? ((i % 2) ? ";" : "\n") : sepMode == 3 ? "\n\n" : ";;";
        s += ls[i];
    }
    if (sepMode == 3) s += "\n";
    if (sepMode == 4) s += ";";
    return s;
}

} // namespace

int main(int argc, char **argv)
{
    QCoreApplication app(argc, argv);
    init();
    int depth = vx::argInt(argc, argv, "--depth", 2), small = vx::argInt(argc, argv, "--small-depth", 3);
    int shard = vx::argInt(argc, argv, "--shard", 0), nshards = vx::argInt(argc, argv, "--nshards", 1);
    const char *one = vx::argStr(argc, argv, "--rules", nullptr);
    if (one) { checkText({ one }, one, false); sum.print(); return 0; }
    qInstallMessageHandler([](QtMsgType, const QMessageLogContext &, const QString &) {});
    // full alphabet up to `depth`
    std::vector<int> e;
    std::function<void(const std::vector<std::string> &, int)> rec = [&](const std::vector<std::string> &alpha, int left) {
        if (!e.empty() && (g_case++ % nshards) == shard) {
            std::vector<std::string> ls; bool qtOk = (&alpha == &LINES);
            for (int i : e) { ls.push_back(alpha[i]); if (&alpha == &LINES && !QT_OK_LINE[i]) qtOk = false; }
            int mode = int(g_case % 5);
            // Qt's setFilterRules() takes newline separated text only
            checkText(ls, joinLines(ls, mode), qtOk && (mode == 0 || mode == 3));
            if (ls.size() <= 1) for (int m2 = 0; m2 < 5; m2++) if (m2 != mode) checkText(ls, joinLines(ls, m2), qtOk && (m2 == 0 || m2 == 3));
        }
        if (!left) return;
        for (size_t i = 0; i < alpha.size(); i++) { e.push_back(int(i)); rec(alpha, left - 1); e.pop_back(); }
    };
    rec(LINES, depth);
    if (small > depth) { e.clear(); rec(SMALL, small); }
    sum.bound = "rule lists <= " + std::to_string(depth) + " over " + std::to_string(LINES.size()) + " lines; <= " + std::to_string(small) + " over " + std::to_string(SMALL.size()) + " lines; x "
              + std::to_string(CATS.size() + 1) + " categories x 5 types x 5 separator styles";
    sum.print();
    return 0;
}
