// C01: every pipeline tree up to a node bound x a 2-message sequence, evaluated by the real
// Pipeline classes and by an independent recursive reference interpreter with explicit
// (formatted?, attrs) state. Second space: every fluent-builder call sequence on SimplePipeline.
#include "common.h"
#include "vx_qtlogger.h"
#include <optional>

using namespace QtLogger;

namespace {

enum Kind { A1, A2, CNT, FACC, FREJ, M1, M2, MEMPTY, SINK, GACC, GREJ, GMUT, NUL, MCOND, PIPE_U, PIPE_S, NKINDS };
const char *KN[] = { "A1", "A2", "C", "F+", "F-", "M1", "M2", "Me", "S", "G+", "G-", "Gm", "null", "Mc", "pipe", "scoped" };
const int NLEAF = PIPE_U;

struct Node { int kind; std::vector<Node> kids; int sid = -1; };   // sid: sink number fixed in advance (mutation space), -1 = numbered in construction order

std::string show(const std::vector<Node> &f)
{
    std::string s;
    for (size_t i = 0; i < f.size(); i++) {
        if (i) s += ' ';
        s += KN[f[i].kind];
        if (f[i].kind >= PIPE_U) s += "{" + show(f[i].kids) + "}";
    }
    return s;
}

// ---------------------------------------------------------------- observations
struct Delivery { int sink; QString text; std::map<QString, QString> attrs; QString raw;
    bool operator==(const Delivery &o) const { return sink == o.sink && text == o.text && attrs == o.attrs && raw == o.raw && text.isNull() == o.text.isNull(); } };

std::map<QString, QString> amap(const QVariantHash &h)
{
    std::map<QString, QString> m;
    for (auto it = h.begin(); it != h.end(); ++it) m[it.key()] = it.value().toString();
    return m;
}
QString ashow(const std::map<QString, QString> &m)
{
    QString s;
    for (auto &kv : m) s += kv.first + "=" + kv.second + ",";
    return s;
}
std::string dshow(const std::vector<Delivery> &v)
{
    QString s;
    for (auto &d : v) s += QStringLiteral("S%1<%2|%3|%4> ").arg(d.sink).arg(d.text.isNull() ? "(null)" : d.text, ashow(d.attrs), d.raw);
    return s.toStdString();
}

// ---------------------------------------------------------------- real handlers
struct Obs { std::vector<Delivery> log; };

struct HA : AttrHandler { int n; HA(int n) : n(n) {}
    // A2 returns one key more than A1: a later source with MORE keys than the message holds must still win on the shared key
    QVariantHash attributes(const LogMessage &) override
    {
        QVariantHash h { { QStringLiteral("k%1").arg(n), QStringLiteral("a%1").arg(n) }, { QStringLiteral("shared"), QStringLiteral("A%1").arg(n) } };
        if (n == 2) h.insert(QStringLiteral("x2"), QStringLiteral("b2"));
        return h;
    } };
struct HC : AttrHandler { int count = 0;
    QVariantHash attributes(const LogMessage &) override { return { { QStringLiteral("cnt"), count++ } }; } };
struct HF : Filter { bool acc; HF(bool a) : acc(a) {} bool filter(const LogMessage &) override { return acc; } };
struct HM : Formatter { int n; HM(int n) : n(n) {}
    QString format(const LogMessage &m) override
    {
        if (n == 0) return QStringLiteral("");
        return QStringLiteral("M%1(%2;%3)").arg(n).arg(m.formattedMessage(), ashow(amap(m.attributes())));
    } };
struct HS : Sink { int id; Obs *o; HS(int id, Obs *o) : id(id), o(o) {}
    void send(const LogMessage &m) override { o->log.push_back({ id, m.formattedMessage(), amap(m.attributes()), m.message() }); } };

struct Built { PipelinePtr root; Obs obs; QSharedPointer<HC> counter; int nsinks = 0; std::map<const Node *, HandlerPtr> made; const Node *skip = nullptr; };

void build(Pipeline *p, const std::vector<Node> &f, Built &b)
{
    for (auto &n : f) {
        if (&n == b.skip) continue;
        switch (n.kind) {
        case A1: p->append(QSharedPointer<HA>::create(1)); break;
        case A2: p->append(QSharedPointer<HA>::create(2)); break;
        case CNT: if (!b.counter) b.counter = QSharedPointer<HC>::create(); p->append(b.counter); break; // the SAME instance everywhere
        case FACC: p->append(QSharedPointer<HF>::create(true)); break;
        case FREJ: p->append(QSharedPointer<HF>::create(false)); break;
        case M1: p->append(QSharedPointer<HM>::create(1)); break;
        case M2: p->append(QSharedPointer<HM>::create(2)); break;
        case MEMPTY: p->append(QSharedPointer<HM>::create(0)); break;
        case SINK: p->append(QSharedPointer<HS>::create(n.sid >= 0 ? n.sid : b.nsinks++, &b.obs)); break;
        case GACC: p->append(FunctionHandlerPtr::create([](LogMessage &) { return true; })); break;
        case GREJ: p->append(FunctionHandlerPtr::create([](LogMessage &) { return false; })); break;
        case GMUT: p->append(FunctionHandlerPtr::create([](LogMessage &m) {
                m.setAttribute(QStringLiteral("g"), QStringLiteral("G"));
                m.setFormattedMessage(QStringLiteral("G(%1)").arg(m.formattedMessage()));
                return true; })); break;
        case NUL: p->append({ HandlerPtr() }); break; // initializer-list append keeps null entries
        case MCOND: p->append(FunctionHandlerPtr::create([](LogMessage &m) {      // a formatter that acts on the first message only: the second one arrives unformatted
                if (m.message() == QStringLiteral("m1")) m.setFormattedMessage(QStringLiteral("C(%1)").arg(m.formattedMessage()));
                return true; })); break;
        case PIPE_U: case PIPE_S: {
            auto c = PipelinePtr::create(n.kind == PIPE_S);
            build(c.data(), n.kids, b);
            p->append(c);
            break; }
        }
        if (n.kind != NUL) b.made[&n] = std::as_const(*p).handlers().last();
    }
}

// ---------------------------------------------------------------- reference interpreter
struct RState { std::optional<QString> fmt; std::map<QString, QString> attrs; };
struct RCtx { int counter = 0; int nsinks = 0; std::vector<Delivery> log; QString raw; };

// sink numbering must follow construction order (pre-order), independent of evaluation => number first
void numberSinks(const std::vector<Node> &f, std::vector<int> &ids, int &next)
{
    for (auto &n : f) { if (n.kind == SINK) ids.push_back(next++); else if (n.kind >= PIPE_U) numberSinks(n.kids, ids, next); }
}

struct RefEval {
    RCtx *c; const std::vector<int> *ids; size_t *idpos;
};

// returns nothing: a pipeline never stops its parent. 'skip' = still walk to keep sink numbering aligned
void refRun(const std::vector<Node> &f, RState &st, RCtx &c, int &sinkCursor, bool live)
{
    bool active = live;
    for (auto &n : f) {
        switch (n.kind) {
        case A1: case A2: if (active) { int k = n.kind == A1 ? 1 : 2; st.attrs[QStringLiteral("k%1").arg(k)] = QStringLiteral("a%1").arg(k); st.attrs[QStringLiteral("shared")] = QStringLiteral("A%1").arg(k); if (k == 2) st.attrs[QStringLiteral("x2")] = QStringLiteral("b2"); } break;
        case CNT: if (active) st.attrs[QStringLiteral("cnt")] = QString::number(c.counter++); break;
        case FACC: case GACC: break;
        case FREJ: case GREJ: active = false; break;
        case M1: case M2: if (active) { int k = n.kind == M1 ? 1 : 2; st.fmt = QStringLiteral("M%1(%2;%3)").arg(k).arg(st.fmt ? *st.fmt : c.raw, ashow(st.attrs)); } break;
        case MEMPTY: if (active) st.fmt = QStringLiteral(""); break;
        case GMUT: if (active) { st.attrs[QStringLiteral("g")] = QStringLiteral("G"); st.fmt = QStringLiteral("G(%1)").arg(st.fmt ? *st.fmt : c.raw); } break;
        case SINK: { int id = n.sid >= 0 ? n.sid : sinkCursor++; if (active) c.log.push_back({ id, st.fmt ? *st.fmt : c.raw, st.attrs, c.raw }); break; }
        case NUL: break;
        case MCOND: if (active && c.raw == QStringLiteral("m1")) st.fmt = QStringLiteral("C(%1)").arg(st.fmt ? *st.fmt : c.raw); break;
        case PIPE_U: refRun(n.kids, st, c, sinkCursor, active); break;
        case PIPE_S: { RState saved = st; refRun(n.kids, st, c, sinkCursor, active); st = saved; break; }
        }
    }
}

// ---------------------------------------------------------------- enumeration
// all forests with exactly `size` nodes and nesting depth <= depth
void forests(int size, int depth, std::vector<Node> &cur, const std::function<void(const std::vector<Node> &)> &cb)
{
    if (size == 0) { cb(cur); return; }
    for (int k = 0; k < NLEAF; k++) { cur.push_back({ k, {} }); forests(size - 1, depth, cur, cb); cur.pop_back(); }
    if (depth > 1) {
        for (int pk = PIPE_U; pk <= PIPE_S; pk++)
            for (int inner = 0; inner <= size - 1; inner++) {
                std::vector<Node> kid;
                forests(inner, depth - 1, kid, [&](const std::vector<Node> &kids) {
                    cur.push_back({ pk, kids });
                    forests(size - 1 - inner, depth, cur, cb);
                    cur.pop_back();
                });
            }
    }
}

bool hasKind(const std::vector<Node> &f, int k) { for (auto &n : f) { if (n.kind == k) return true; if (n.kind >= PIPE_U && hasKind(n.kids, k)) return true; } return false; }

void checkTree(const std::vector<Node> &f, bool rootScoped, vx::Summary &sum)
{
    Built b;
    b.root = PipelinePtr::create(rootScoped);
    build(b.root.data(), f, b);
    RCtx rc;
    const char *texts[2] = { "m1", "m2" };
    std::string out;
    for (int mi = 0; mi < 2; mi++) {
        QMessageLogContext ctx("file.cpp", 7, "fn()", "cat");
        LogMessage m(mi ? QtWarningMsg : QtDebugMsg, ctx, QString::fromLatin1(texts[mi]));
        b.obs.log.clear();
        bool r = b.root->process(m);
        RState st; rc.log.clear(); rc.raw = QString::fromLatin1(texts[mi]);
        int cursor = 0;
        refRun(f, st, rc, cursor, true);
        sum.transitions += 1;
        bool ok = (b.obs.log == rc.log) && r;
        std::string finalWhy;
        // after a scoped root, or in general: message state after the root must equal the reference's final state
        if (ok) {
            RState fin = rootScoped ? RState {} : st;
            bool fmtOk = fin.fmt ? (m.isFormatted() && m.formattedMessage() == *fin.fmt) : !m.isFormatted();
            if (!fmtOk || amap(m.attributes()) != fin.attrs) {
                ok = false;
                finalWhy = "; after the root pipeline the message has formatted=" + (m.isFormatted() ? "'" + m.formattedMessage().toStdString() + "'" : std::string("(none)")) + " attrs={" + ashow(amap(m.attributes())).toStdString()
                        + "} but in-order evaluation leaves formatted=" + (fin.fmt ? "'" + fin.fmt->toStdString() + "'" : std::string("(none)")) + " attrs={" + ashow(fin.attrs).toStdString() + "}";
            }
        }
        if (!ok) {
            std::string key = "tree-mismatch";
            sum.violate(key, "tree [" + show(f) + "]" + (rootScoped ? " (scoped root)" : "") + " message " + texts[mi] + ": sinks saw " + dshow(b.obs.log) + " but in-order evaluation predicts " + dshow(rc.log) + (r ? "" : " (root returned false)") + finalWhy,
                        "{\"kind\":\"c01-tree\",\"tree\":" + vx::jstr(show(f)) + ",\"root_scoped\":" + (rootScoped ? "true" : "false") + ",\"message\":" + std::to_string(mi) + "}");
        }
        out += dshow(b.obs.log) + "#";
    }
    sum.digestAdd(show(f) + "=>" + out);
    sum.cases++;
    if ((sum.cases & 1023) == 0 && sum.outcomes.size() < 5000) sum.outcomes.insert(out);
}


// ---------------------------------------------------------------- mutation space: a LIVE tree is changed between messages
// "For every tree of handlers": a tree that has already processed messages and is then extended (append to any pipeline of the
// tree), reduced (remove a handler from its pipeline) or emptied (clear a pipeline) is a tree like any other - the next message must
// be evaluated in order on the tree as it is NOW. Nothing a pipeline remembers about its descendants may survive their change.
void numberTree(std::vector<Node> &f, int &next) { for (auto &n : f) { if (n.kind == SINK) n.sid = next++; else if (n.kind >= PIPE_U) numberTree(n.kids, next); } }
void allPaths(const std::vector<Node> &f, std::vector<int> &cur, std::vector<std::vector<int>> &out)
{
    for (size_t i = 0; i < f.size(); i++) { cur.push_back((int)i); out.push_back(cur); if (f[i].kind >= PIPE_U) allPaths(f[i].kids, cur, out); cur.pop_back(); }
}
std::vector<Node> &siblingsAt(std::vector<Node> &f, const std::vector<int> &path)
{
    std::vector<Node> *v = &f;
    for (size_t i = 0; i + 1 < path.size(); i++) v = &(*v)[path[i]].kids;
    return *v;
}
const char *MUT[] = { "append", "remove", "clear" };

void checkMutation(const std::vector<Node> &f0, const std::vector<int> &path, int mode, vx::Summary &sum)
{
    std::vector<Node> full = f0;                       // the larger tree (before a removal / after an append)
    int next = 0; numberTree(full, next);
    std::vector<Node> &sib = siblingsAt(full, path);
    const Node *x = &sib[path.back()];
    std::vector<Node> small = full;                    // the tree without x (append, remove) or with x's children gone (clear)
    { std::vector<Node> &ss = siblingsAt(small, path); if (mode == 2) ss[path.back()].kids.clear(); else ss.erase(ss.begin() + path.back()); }
    const std::vector<Node> &before = mode == 0 ? small : full, &after = mode == 0 ? full : small;

    Built b;
    b.root = PipelinePtr::create(false);
    if (mode == 0) b.skip = x;
    build(b.root.data(), full, b);
    Pipeline *parent = b.root.data();
    if (path.size() > 1) { std::vector<Node> *v = &full; const Node *pn = nullptr; for (size_t i = 0; i + 1 < path.size(); i++) { pn = &(*v)[path[i]]; v = &(*v)[path[i]].kids; } parent = static_cast<Pipeline *>(b.made[pn].data()); }

    RCtx rc;
    std::string out;
    auto one = [&](const char *text, const std::vector<Node> &tree, int step) {
        QMessageLogContext ctx("file.cpp", 7, "fn()", "cat");
        LogMessage m(QtDebugMsg, ctx, QString::fromLatin1(text));
        b.obs.log.clear();
        bool r = b.root->process(m);
        RState st; rc.log.clear(); rc.raw = QString::fromLatin1(text);
        int cursor = 0;
        refRun(tree, st, rc, cursor, true);
        sum.transitions += 1;
        bool fmtOk = st.fmt ? (m.isFormatted() && m.formattedMessage() == *st.fmt) : !m.isFormatted();
        if (!(b.obs.log == rc.log) || !r || !fmtOk || amap(m.attributes()) != st.attrs) {
            std::string ps; for (int i : path) ps += (ps.empty() ? "" : ".") + std::to_string(i);
            sum.violate("mutation-mismatch", "tree [" + show(before) + "] processed m1, then " + MUT[mode] + " at position " + ps + " gives [" + show(after) + "]; message " + std::to_string(step) + " (" + text + "): sinks saw " + dshow(b.obs.log) +
                        " but in-order evaluation of the tree as it is now predicts " + dshow(rc.log) + "; message afterwards: formatted=" + (m.isFormatted() ? "'" + m.formattedMessage().toStdString() + "'" : std::string("(none)")) + " attrs={" + ashow(amap(m.attributes())).toStdString() + "}, predicted formatted=" +
                        (st.fmt ? "'" + st.fmt->toStdString() + "'" : std::string("(none)")) + " attrs={" + ashow(st.attrs).toStdString() + "}",
                        "{\"kind\":\"c01-mutation\",\"tree\":" + vx::jstr(show(f0)) + ",\"path\":" + vx::jstr(ps) + ",\"op\":" + vx::jstr(MUT[mode]) + "}");
        }
        out += dshow(b.obs.log) + "#";
    };
    one("m1", before, 1);
    if (mode == 0) {
        PipelinePtr tmp = PipelinePtr::create(false);
        std::vector<Node> just { *x };
        // sinks built now must report into b.obs: build with b itself into a scratch pipeline, then move the handler over
        b.skip = nullptr;
        build(tmp.data(), just, b);
        if (x->kind == NUL) parent->append({ HandlerPtr() }); else parent->append(std::as_const(*tmp).handlers().last());
    } else if (mode == 1) parent->remove(b.made[x]);
    else static_cast<Pipeline *>(b.made[x].data())->clear();
    one("m2", after, 2);
    one("m1", after, 3);
    sum.digestAdd(show(f0) + "/" + MUT[mode] + "=>" + out);
    sum.cases++;
    sum.counters["mutation_cases"]++;
}

void mutationsOf(const std::vector<Node> &f, vx::Summary &sum)
{
    std::vector<std::vector<int>> paths; std::vector<int> cur;
    allPaths(f, cur, paths);
    std::vector<Node> copy = f;
    for (auto &p : paths) {
        std::vector<Node> &sib = siblingsAt(copy, p);
        const Node &x = sib[p.back()];
        if (p.back() == (int)sib.size() - 1) checkMutation(f, p, 0, sum);                               // x appended later (it is the last child of its pipeline)
        if (x.kind != CNT && x.kind != NUL) checkMutation(f, p, 1, sum);                                 // x removed (the shared counter instance and null entries have no identity to remove by)
        if (x.kind >= PIPE_U && !x.kids.empty()) checkMutation(f, p, 2, sum);                            // x cleared
    }
}

// ---------------------------------------------------------------- fluent builder space
const char *BOP[] = { "attrHandler", "filter(+)", "filter(-)", "format", "handler(+)", "handler(-)", "sink", "pipeline()", "end()" };
const int NBOP = 9;

void checkBuilder(const std::vector<int> &ops, vx::Summary &sum)
{
    // reference: a tree + cursor path
    std::vector<Node> root;
    std::vector<std::vector<Node> *> stack { &root };
    SimplePipeline sp;
    SimplePipeline *cur = &sp;
    Obs obs; int nsinks = 0;
    // NB: the reference tree is built with pointers into vectors that may reallocate; build paths instead
    std::vector<int> path; // indices of nested pipelines from the root
    auto at = [&](std::vector<Node> &r) -> std::vector<Node> & { std::vector<Node> *p = &r; for (int i : path) p = &(*p)[i].kids; return *p; };
    for (int op : ops) {
        switch (op) {
        case 0: cur = &cur->attrHandler([](const LogMessage &) { return QVariantHash { { QStringLiteral("k1"), QStringLiteral("a1") }, { QStringLiteral("shared"), QStringLiteral("A1") } }; }); at(root).push_back({ A1, {} }); break;
        case 1: cur = &cur->filter([](const LogMessage &) { return true; }); at(root).push_back({ FACC, {} }); break;
        case 2: cur = &cur->filter([](const LogMessage &) { return false; }); at(root).push_back({ FREJ, {} }); break;
        case 3: cur = &cur->format([](const LogMessage &m) { return QStringLiteral("M1(%1;%2)").arg(m.formattedMessage(), ashow(amap(m.attributes()))); }); at(root).push_back({ M1, {} }); break;
        case 4: cur = &cur->handler([](LogMessage &) { return true; }); at(root).push_back({ GACC, {} }); break;
        case 5: cur = &cur->handler([](LogMessage &) { return false; }); at(root).push_back({ GREJ, {} }); break;
        case 6: cur->append(QSharedPointer<HS>::create(nsinks++, &obs)); at(root).push_back({ SINK, {} }); break;
        case 7: { cur = &cur->pipeline(); auto &v = at(root); v.push_back({ PIPE_S, {} }); path.push_back(int(v.size()) - 1); break; }
        case 8: cur = &cur->end(); if (!path.empty()) path.pop_back(); break;
        }
    }
    (void)stack;
    QMessageLogContext ctx("file.cpp", 7, "fn()", "cat");
    LogMessage m(QtInfoMsg, ctx, QStringLiteral("m1"));
    sp.process(m);
    RCtx rc; rc.raw = QStringLiteral("m1"); RState st; int cursor = 0;
    refRun(root, st, rc, cursor, true);
    sum.transitions += (long long)ops.size();
    std::string h = "[";
    for (size_t i = 0; i < ops.size(); i++) h += std::string(i ? "," : "") + vx::jstr(BOP[ops[i]]);
    h += "]";
    if (!(obs.log == rc.log))
        sum.violate("builder-mismatch", "fluent calls " + h + ": sinks saw " + dshow(obs.log) + " but the built tree [" + show(root) + "] predicts " + dshow(rc.log),
                    "{\"kind\":\"c01-builder\",\"calls\":" + h + "}");
    sum.digestAdd(h + "=>" + dshow(obs.log));
    sum.cases++;
    sum.counters["builder_cases"]++;
}

} // namespace

int main(int argc, char **argv)
{
    int nodes = vx::argInt(argc, argv, "--nodes", 4);
    int depth = vx::argInt(argc, argv, "--depth", 3);
    int calls = vx::argInt(argc, argv, "--calls", 5);
    int shard = vx::argInt(argc, argv, "--shard", 0), nshards = vx::argInt(argc, argv, "--nshards", 1);
    int scopedRoot = vx::argInt(argc, argv, "--scoped-root", 0);
    int mutNodes = vx::argInt(argc, argv, "--mut-nodes", 0);
    vx::Summary sum;
    sum.bound = "trees <= " + std::to_string(nodes) + " nodes, depth <= " + std::to_string(depth) + ", 13 leaf kinds, 2 messages; builder calls <= " + std::to_string(calls) + "; live-tree changes (append / remove / clear at every node) on trees <= " + std::to_string(mutNodes) + " nodes, 3 messages";

    long long idx = 0;
    for (int size = 0; size <= nodes; size++) {
        std::vector<Node> cur;
        forests(size, depth, cur, [&](const std::vector<Node> &f) {
            if ((idx++ % nshards) != shard) return;
            checkTree(f, false, sum);
            if (scopedRoot) checkTree(f, true, sum);
            if (size == nodes && hasKind(f, PIPE_S) && hasKind(f, SINK) && sum.samples.size() < 3) sum.sample("{\"tree\":" + vx::jstr(show(f)) + "}");
        });
        sum.counters["trees_size_" + std::to_string(size)] = 0; // filled by python merge via cases; placeholder keeps key order
    }
    sum.counters["trees"] = sum.cases;
    // live trees changed between messages
    for (int size = 1; size <= mutNodes; size++) {
        std::vector<Node> cur;
        forests(size, depth, cur, [&](const std::vector<Node> &f) { if ((idx++ % nshards) == shard) mutationsOf(f, sum); });
    }
    // fluent builder sequences
    std::vector<int> ops;
    std::function<void(int)> rec = [&](int left) {
        if ((idx++ % nshards) == shard) checkBuilder(ops, sum);
        if (!left) return;
        for (int o = 0; o < NBOP; o++) { ops.push_back(o); rec(left - 1); ops.pop_back(); }
    };
    rec(calls);
    sum.states = sum.cases; // one evaluation state per (tree|call sequence); transitions = messages processed / calls applied
    sum.print();
    return 0;
}
