// C19 (c): the message-handler protocol. Every history up to the depth bound of
//   install(A)  install(B)  restore  foreign(F1)  foreign(F2)
// is executed on the real Logger::installMessageHandler / restorePreviousMessageHandler / qInstallMessageHandler; after EVERY
// step a message is emitted through qDebug() and the recorder that received it is compared with the reference model of the
// property: restore reinstates the handler that was active before the logger was first installed (however often install was
// called) and leaves a newer foreign handler in place. Where a foreign handler was installed BETWEEN two installs the statement
// is silent on which of the two earlier handlers comes back: accept-set {the one before the first install, that foreign one}.
// Plain enumeration, no state merging: the remembered handler is hidden state that only a later restore reveals.
#include "common.h"
#include "vx_qtlogger.h"
#include <algorithm>

using namespace QtLogger;

namespace {

std::string g_seen;
void f0(QtMsgType, const QMessageLogContext &, const QString &) { g_seen = "F0"; }
void f1(QtMsgType, const QMessageLogContext &, const QString &) { g_seen = "F1"; }
void f2(QtMsgType, const QMessageLogContext &, const QString &) { g_seen = "F2"; }
struct Rec : Sink { const char *tag; explicit Rec(const char *t) : tag(t) { } void send(const LogMessage &) override { g_seen = tag; } };

const char *OPN[5] = { "install(A)", "install(B)", "restore", "foreign(F1)", "foreign(F2)" };
std::string hshow(const std::vector<int> &h) { std::string s = "["; for (size_t i = 0; i < h.size(); i++) s += (i ? "," : "") + vx::jstr(OPN[h[i]]); return s + "]"; }

Logger *A, *B;
vx::Summary sum;

std::string probe() { g_seen = "none"; qDebug("probe"); return g_seen; }

void runHistory(const std::vector<int> &h)
{
    // reset: forget whatever an earlier history left behind, F0 plays the part of "the handler that was there first"
    Logger::restorePreviousMessageHandler();
    qInstallMessageHandler(f0);
    if (probe() != "F0") { fprintf(stderr, "ENGINE: reset failed\n"); exit(3); }
    // reference model
    std::string cur = "F0", active = "A", base, inter; bool open = false;
    std::vector<std::string> accept;
    for (size_t i = 0; i < h.size(); i++) {
        accept.clear();
        switch (h[i]) {
        case 0: case 1: {
            Logger *l = h[i] == 0 ? A : B;
            l->installMessageHandler();
            active = h[i] == 0 ? "A" : "B";
            if (!open) { open = true; base = cur; inter.clear(); }
            else if (cur != "L") inter = cur;
            cur = "L";
            break; }
        case 2:
            Logger::restorePreviousMessageHandler();
            if (open) {
                open = false;
                if (cur == "L") { accept.push_back(base); if (!inter.empty() && inter != base) accept.push_back(inter); }
            }
            break;
        case 3: qInstallMessageHandler(f1); cur = "F1"; break;
        case 4: qInstallMessageHandler(f2); cur = "F2"; break;
        }
        std::string got = probe();
        sum.transitions++;
        bool ok;
        if (!accept.empty()) { ok = std::find(accept.begin(), accept.end(), got) != accept.end(); if (ok) cur = got; if (accept.size() > 1) sum.counters["steps_with_accept_set"]++; }
        else ok = got == (cur == "L" ? active : cur);
        if (i + 1 == h.size()) { sum.cases++; sum.outcomes.insert(got + (open ? "+" : "-")); }
        if (!ok) {
            if (i + 1 == h.size()) {
                std::string want = accept.empty() ? (cur == "L" ? active : cur) : accept[0] + (accept.size() > 1 ? " or " + accept[1] : "");
                sum.violate(std::string("handler:") + OPN[h[i]] + ":" + got + "-instead-of-" + want,
                            "history " + hshow(h) + ": after the last step a message emitted through qDebug() is received by " + got + ", the protocol prescribes " + want,
                            "{\"kind\":\"c19-handler\",\"history\":" + hshow(h) + "}");
            }
            return; // later steps of a history that already went wrong are not judged (its prefix is reported on its own)
        }
    }
}

} // namespace

int main(int argc, char **argv)
{
    QCoreApplication app(argc, argv);
    int depth = vx::argInt(argc, argv, "--depth", 6);
    A = new Logger; B = new Logger;
    A->append(SinkPtr(new Rec("A"))); B->append(SinkPtr(new Rec("B")));
    std::vector<int> h;
    // shortest histories first, so that the first counterexample reported is a minimal one
    for (int d = 1; d <= depth; d++) {
        std::function<void()> rec = [&] {
            if ((int)h.size() == d) { runHistory(h); return; }
            for (int op = 0; op < 5; op++) { h.push_back(op); rec(); h.pop_back(); }
        };
        rec();
    }
    sum.states = sum.cases;
    sum.bound = "handler-protocol histories <= " + std::to_string(depth) + " over 5 operations (no state merging)";
    qInstallMessageHandler(nullptr);
    sum.print();
    return 0;
}
