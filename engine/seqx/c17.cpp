// C17: explicit-state BFS over call sequences of SortedPipeline's typed insert / clear calls.
// State = the op history replayed on a fresh object; canonical form = the handlers() list as
// (class, insertion id) read through the public API. Oracle = reference model (stable order by
// class rank) + execution order observed by recording handlers.
#include "common.h"
#include "vx_qtlogger.h"

using namespace QtLogger;

namespace {

enum Cls { A, F, M, S, P };
const char CL[] = "AFMSP";

struct Rec { std::vector<std::string> log; };

struct RA : AttrHandler { int id; Rec *r; RA(int i, Rec *r) : id(i), r(r) {}
    QVariantHash attributes(const LogMessage &) override { r->log.push_back("A" + std::to_string(id)); return { { QStringLiteral("a%1").arg(id), id } }; } };
struct RF : Filter { int id; Rec *r; RF(int i, Rec *r) : id(i), r(r) {}
    bool filter(const LogMessage &m) override { r->log.push_back("F" + std::to_string(id) + "[attrs=" + std::to_string(m.attributes().size()) + (m.isFormatted() ? ",fmt" : "") + "]"); return true; } };
struct RM : Formatter { int id; Rec *r; RM(int i, Rec *r) : id(i), r(r) {}
    QString format(const LogMessage &m) override { r->log.push_back("M" + std::to_string(id) + "[attrs=" + std::to_string(m.attributes().size()) + "]"); return QStringLiteral("M%1<%2>").arg(id).arg(m.message()); } };
struct RS : Sink { int id; Rec *r; RS(int i, Rec *r) : id(i), r(r) {}
    void send(const LogMessage &m) override { r->log.push_back("S" + std::to_string(id) + "[" + m.formattedMessage().toStdString() + ",attrs=" + std::to_string(m.attributes().size()) + "]"); } };

struct H { Cls c; int id; };

// ops 0..4 typed inserts, 5..9 clear<Class>, 10 clear, 11..15 typed inserts with a null argument
const char *OPN[] = { "appendAttrHandler", "appendFilter", "setFormatter", "appendSink", "appendPipeline",
                      "clearAttrHandlers", "clearFilters", "clearFormatters", "clearSinks", "clearPipelines", "clear",
                      "appendAttrHandler(null)", "appendFilter(null)", "setFormatter(null)", "appendSink(null)", "appendPipeline(null)",
                      "setFormatter(the installed one again)",
                      "appendAttrHandler(the first attribute handler object again)", "appendFilter(the first filter object again)", "appendSink(the first sink object again)" };
const int NOPS = 20;

struct World {
    SortedPipeline sp;
    Rec rec;
    std::map<const Handler *, H> ident;
    std::vector<H> ref; // reference model: always kept in class-rank order, stable
    int next = 1;
    QSharedPointer<RA> firstA; QSharedPointer<RF> firstF; QSharedPointer<RS> firstS;   // one object registered more than once (a shared counter, one sink for two roles)
    FormatterPtr curFmt; int curFmtId = 0;   // the formatter object handed to setFormatter() last (a configuration routine that runs twice hands it in again)

    void refInsert(Cls c, int id)
    {
        size_t i = 0;
        while (i < ref.size() && ref[i].c <= c) i++;
        ref.insert(ref.begin() + i, H { c, id });
    }
    void refClear(Cls c) { std::vector<H> n; for (auto &h : ref) if (h.c != c) n.push_back(h); ref = n; }

    void apply(int op)
    {
        int id = next++;
        switch (op) {
        case 0: { auto h = QSharedPointer<RA>::create(id, &rec); ident[h.data()] = { A, id }; sp.appendAttrHandler(h); refInsert(A, id); if (!firstA) firstA = h; break; }
        case 1: { auto h = QSharedPointer<RF>::create(id, &rec); ident[h.data()] = { F, id }; sp.appendFilter(h); refInsert(F, id); if (!firstF) firstF = h; break; }
        case 17: { if (!firstA) { firstA = QSharedPointer<RA>::create(id, &rec); ident[firstA.data()] = { A, id }; } sp.appendAttrHandler(firstA); refInsert(A, firstA->id); break; }
        case 18: { if (!firstF) { firstF = QSharedPointer<RF>::create(id, &rec); ident[firstF.data()] = { F, id }; } sp.appendFilter(firstF); refInsert(F, firstF->id); break; }
        case 19: { if (!firstS) { firstS = QSharedPointer<RS>::create(id, &rec); ident[firstS.data()] = { S, id }; } sp.appendSink(firstS); refInsert(S, firstS->id); break; }
        case 2: { auto h = QSharedPointer<RM>::create(id, &rec); ident[h.data()] = { M, id }; sp.setFormatter(h); refClear(M); refInsert(M, id); curFmt = h; curFmtId = id; break; }
        case 16: {
            if (!curFmt) { auto h = QSharedPointer<RM>::create(id, &rec); ident[h.data()] = { M, id }; curFmt = h; curFmtId = id; }
            sp.setFormatter(curFmt); refClear(M); refInsert(M, curFmtId); break; }
        case 3: { auto h = QSharedPointer<RS>::create(id, &rec); ident[h.data()] = { S, id }; sp.appendSink(h); refInsert(S, id); if (!firstS) firstS = h; break; }
        case 4: {
            auto p = PipelinePtr::create();
            auto inner = QSharedPointer<RS>::create(id, &rec); // a sink inside the nested pipeline records when it runs
            p->append(inner);
            ident[p.data()] = { P, id };
            sp.appendPipeline(p); refInsert(P, id); break; }
        case 5: sp.clearAttrHandlers(); refClear(A); break;
        case 6: sp.clearFilters(); refClear(F); break;
        case 7: sp.clearFormatters(); refClear(M); break;
        case 8: sp.clearSinks(); refClear(S); break;
        case 9: sp.clearPipelines(); refClear(P); break;
        case 10: sp.clear(); ref.clear(); break;
        case 11: sp.appendAttrHandler(AttrHandlerPtr()); break;
        case 12: sp.appendFilter(FilterPtr()); break;
        case 13: sp.setFormatter(FormatterPtr()); break;
        case 14: sp.appendSink(SinkPtr()); break;
        case 15: sp.appendPipeline(PipelinePtr()); break;
        }
    }

    std::string actual(bool withIds) const
    {
        std::string s;
        const SortedPipeline &csp = sp;
        for (const auto &h : csp.handlers()) {
            if (!h) { s += "null "; continue; }
            auto it = ident.find(h.data());
            if (it == ident.end()) { s += "? "; continue; }
            // cross-check the public type() against what we inserted
            s += CL[it->second.c];
            if (withIds) s += std::to_string(it->second.id);
            s += ' ';
        }
        return s;
    }
    std::string expected(bool withIds) const
    {
        std::string s;
        for (auto &h : ref) { s += CL[h.c]; if (withIds) s += std::to_string(h.id); s += ' '; }
        return s;
    }
    // canonical form: classes + rank of the id within its class (ids are history dependent, ranks are not)
    std::string canon() const
    {
        std::string s;
        const SortedPipeline &csp = sp;
        std::map<int, std::vector<int>> byc;
        std::vector<H> lst;
        for (const auto &h : csp.handlers()) { auto it = ident.find(h.data()); if (it != ident.end()) { lst.push_back(it->second); byc[it->second.c].push_back(it->second.id); } else lst.push_back(H { A, -1 }); }
        for (auto &kv : byc) std::sort(kv.second.begin(), kv.second.end());
        for (auto &h : lst) {
            if (h.id < 0) { s += "? "; continue; }
            auto &v = byc[h.c];
            int rank = int(std::find(v.begin(), v.end(), h.id) - v.begin());
            s += CL[h.c]; s += std::to_string(rank); s += ' ';
        }
        return s;
    }
    // expected execution log for one message under the reference order
    std::vector<std::string> expectedLog() const
    {
        std::vector<std::string> out;
        int attrs = 0; bool fmt = false; std::string text = "hello"; std::set<int> attrIds;
        for (auto &h : ref) {
            switch (h.c) {
            case A: out.push_back("A" + std::to_string(h.id)); if (attrIds.insert(h.id).second) attrs++; break;   // the same handler object twice sets the same key twice
            case F: out.push_back("F" + std::to_string(h.id) + "[attrs=" + std::to_string(attrs) + (fmt ? ",fmt" : "") + "]"); break;
            case M: out.push_back("M" + std::to_string(h.id) + "[attrs=" + std::to_string(attrs) + "]"); fmt = true; text = "M" + std::to_string(h.id) + "<hello>"; break;
            case S: case P: out.push_back("S" + std::to_string(h.id) + "[" + text + ",attrs=" + std::to_string(attrs) + "]"); break;
            }
        }
        return out;
    }
};

std::string histJson(const std::vector<int> &h)
{
    std::string s = "[";
    for (size_t i = 0; i < h.size(); i++) { s += (i ? "," : ""); s += vx::jstr(OPN[h[i]]); }
    return s + "]";
}

std::string join(const std::vector<std::string> &v) { std::string s; for (auto &x : v) { s += x; s += ' '; } return s; }

// replay a history on a fresh object, checking the oracle after every call. returns canon.
std::string runHistory(const std::vector<int> &hist, vx::Summary *sum, bool *violated)
{
    World w;
    for (size_t i = 0; i < hist.size(); i++) {
        w.apply(hist[i]);
        if (sum) sum->transitions++;
    }
    std::string act = w.actual(true), exp = w.expected(true);
    if (violated) *violated = false;
    if (sum) sum->digestAdd(histJson(hist) + "=>" + act);
    if (act != exp) {
        if (violated) *violated = true;
        if (sum) {
            // key: the class-level shape of the disagreement, independent of ids
            std::string key = "order:" + w.expected(false) + "=>" + w.actual(false);
            sum->violate(key, "after " + histJson(hist) + " handlers() is [" + act + "] but class order/insertion order requires [" + exp + "]",
                         "{\"kind\":\"c17\",\"history\":" + histJson(hist) + ",\"expected\":" + vx::jstr(exp) + ",\"actual\":" + vx::jstr(act) + "}");
        }
    } else {
        // execution order seen by the recording handlers
        QMessageLogContext ctx("f.cpp", 1, "fn", "cat");
        LogMessage m(QtDebugMsg, ctx, QStringLiteral("hello"));
        w.rec.log.clear();
        w.sp.process(m);
        auto e = w.expectedLog();
        if (w.rec.log != e) {
            if (violated) *violated = true;
            if (sum) sum->violate("exec-order", "after " + histJson(hist) + " execution log [" + join(w.rec.log) + "] != [" + join(e) + "]",
                                  "{\"kind\":\"c17\",\"history\":" + histJson(hist) + ",\"expected_log\":" + vx::jstr(join(e)) + ",\"actual_log\":" + vx::jstr(join(w.rec.log)) + "}");
        }
        if (sum) sum->outcomes.insert(join(w.rec.log).substr(0, 0) + w.actual(false));
    }
    return w.canon();
}

} // namespace

int main(int argc, char **argv)
{
    int depth = vx::argInt(argc, argv, "--depth", 6);
    const char *replay = vx::argStr(argc, argv, "--replay-ops", nullptr);
    vx::Summary sum;
    sum.bound = depth > 0 ? "call sequences <= " + std::to_string(depth) + " over 20 calls (BFS, canonical states)" : "";

    if (replay) { // comma separated op indices
        std::vector<int> h;
        for (auto &p : QString::fromLatin1(replay).split(',', Qt::SkipEmptyParts)) h.push_back(p.toInt());
        bool v = false; runHistory(h, &sum, &v); sum.cases = 1; sum.states = 1; sum.print();
        return 0;
    }

    // Plain enumeration WITHOUT state merging: the BFS below merges histories that lead to the same handlers() list, which is
    // only sound while handlers() is the whole state. A change that adds hidden state (a cached index, a counter) would be
    // masked by the merge, so every sequence over the 11 non-null calls up to --nodedup-depth is also run on its own.
    int nd = vx::argInt(argc, argv, "--nodedup-depth", 0);
    int shard = vx::argInt(argc, argv, "--shard", 0), nshards = vx::argInt(argc, argv, "--nshards", 1);
    int ndDup = vx::argInt(argc, argv, "--nodedup-dup-depth", 0);    // the same enumeration over 15 calls (incl. re-registering the first attribute handler / filter / sink object)
    if (vx::argInt(argc, argv, "--long", 0)) {
        // more than 16 handlers in one pipeline (sorting routines switch algorithm with the length): pipelines of up to 40 handlers built in
        // three orders, checked after every insertion from the 15th on
        for (int total : { 17, 24, 33, 40 }) for (int variant = 0; variant < 3; variant++) {
            std::vector<int> h;
            const int cyc[4] = { 0, 1, 3, 4 }, rev[4] = { 4, 3, 1, 0 }, blk[4] = { 3, 4, 0, 1 };
            for (int i = 0; i < total; i++) {
                int op = variant == 0 ? cyc[i % 4] : variant == 1 ? rev[i % 4] : blk[(i * 4) / total];
                if (i == total / 2) op = 2;
                h.push_back(op);
                if (i >= 14) { bool v = false; runHistory(h, &sum, &v); sum.cases++; sum.counters["long_pipeline_prefixes"]++; if (v) break; }
            }
        }
    }
    for (int pass = 0; pass < 2; pass++) {
        int ndp = pass == 0 ? nd : ndDup;
        if (ndp <= 0) continue;
        const int NB = pass == 0 ? 12 : 15;
        const int NBOPS[15] = { 0, 1, 2, 3, 4, 5, 6, 7, 8, 9, 10, 16, 17, 18, 19 };
        const int nd = ndp;
        std::vector<int> h;
        long long top = 0;
        std::function<void()> rec = [&] {
            if (!h.empty()) {
                bool v = false;
                runHistory(h, &sum, &v);
                sum.cases++; sum.counters["sequences_without_state_merging"]++;
                if (v) return;
            }
            if ((int)h.size() == nd) return;
            for (int oi = 0; oi < NB; oi++) {
                int op = NBOPS[oi];
                if (h.size() == 1 && nd >= 2 && (top++ % nshards) != shard) continue;   // shard on the first two calls
                h.push_back(op); rec(); h.pop_back();
            }
        };
        if (nd < 2 && shard != 0) continue;
        rec();
        sum.bound += std::string(sum.bound.empty() ? "" : "; ") + "all call sequences <= " + std::to_string(nd) + " over " + std::to_string(NB) + " calls, no state merging";
    }
    if (depth <= 0) { sum.print(); return 0; }

    std::set<std::string> seen;
    std::vector<std::vector<int>> frontier { {} };
    seen.insert(runHistory({}, nullptr, nullptr));
    sum.states = 1;
    for (int d = 1; d <= depth; d++) {
        std::vector<std::vector<int>> next;
        for (auto &h : frontier) {
            for (int op = 0; op < NOPS; op++) {
                auto h2 = h; h2.push_back(op);
                bool v = false;
                std::string c = runHistory(h2, &sum, &v);
                sum.cases++;
                if (v) continue; // do not expand beyond a violating state: its canon is not a reference state
                if (seen.insert(c).second) {
                    // canonical form must be stable on replay (uninitialised fields / leftover globals would show here)
                    std::string c2 = runHistory(h2, nullptr, nullptr);
                    if (c2 != c) { fprintf(stderr, "ENGINE: canon diverged on replay\n"); return 3; }
                    sum.replays_ok++;
                    next.push_back(h2);
                    sum.states++;
                    if (sum.samples.size() < 6 && d >= 3) sum.sample("{\"history\":" + histJson(h2) + ",\"state\":" + vx::jstr(c) + "}");
                }
            }
        }
        sum.counters["new_states_depth_" + std::to_string(d)] = (long long)next.size();
        frontier.swap(next);
    }
    sum.print();
    return 0;
}
