// C14: no input can crash, corrupt memory or hang formatting and filtering.
// Every token string up to the bound over syntax alphabets (function signatures, patterns, category rules, messages) plus a
// finite long family (every token and ordered token pair repeated to the size cap) is pushed through the real formatters and
// filters in an ASan+UBSan build. The oracle is the sanitizer, abort() and a per-case watchdog:
//   - before every case its index is stored in a shared marker file (mmap), so that the Python driver can attribute a
//     sanitizer abort / crash / watchdog exit to ONE case and restart the shard after it;
//   - SIGALRM after the per-case budget exits with status 4 ("hang").
// usage: c14 --domain func|pattern|rules|message --len N --shard i --nshards n [--start K] [--marker FILE] [--long 1] [--one <hex utf8>]
#include "common.h"
#include "vx_qtlogger.h"
#include <fcntl.h>
#include <signal.h>
#include <sys/mman.h>
#include <unistd.h>

using namespace QtLogger;

namespace {

const QtMsgType TYPES[5] = { QtDebugMsg, QtInfoMsg, QtWarningMsg, QtCriticalMsg, QtFatalMsg };

struct Marker { long long caseIdx; long long done; long long textLen; char domain[16]; char text[400]; } *g_marker = nullptr;
vx::Summary sum;
int g_budget = 5, g_types = 5;

void onAlarm(int) { const char m[] = "C14-WATCHDOG: per-case time budget exceeded\n"; (void)!write(2, m, sizeof m - 1); _exit(4); }

std::vector<std::string> alphabet(const std::string &d)
{
    if (d == "func") return { "(", ")", "<", ">", "[", "]", "::", " ", "a", "operator", "()", "*", "&", ",", "lambda", "const", "+", "-", "(*", ")(", "{", "}", "#", "=", "~", "with " };
    if (d == "pattern") return { "%", "{", "}", ":", "?", ",", "<", ">", "^", "!", "0", "9", "a", " ", "if-", "endif", "time ", "shortfile ", "message", "%{", "-", "*", "func", "if-debug", "\xe2\x80\x8b", "type",
                                   "%{o?", ",-9", ",-99", "%{o?,2147483647}", "%{o?2147483647,-2147483648}",
                                   "%{type:<4294967306}", "%{message:*^18446744073709551628}", "%{type:4294967299!}", "%{type:>99999999999999999999!}" };   // widths beyond 2^32 / 2^64 (a hand-written number parser wraps)   // composite tokens: an optional attribute (absent from the message), signed and extreme remove counts
    if (d == "rules") return { "a", ".", "*", "=", "true", "false", ";", "\n", " ", "debug", "+", "[", "(", ")", "\\", "|", "?", "critical", "]", "{" };
    return { "a", "b", "\n", " ", "\xf0\x9f\x98\x80", "(", "\\", "\"", "%", "\x01", ".", "*", "\xcc\x81", "\xe2\x80\xae" };   // message
}

// --- one case per domain ------------------------------------------------------------------------------------------
PatternFormatter *g_funcFmt, *g_functionFmt;
std::vector<QSharedPointer<RegExpFilter>> g_rx;
PrettyFormatter *g_pretty, *g_prettyColor, *g_prettyWide, *g_prettyHuge; JsonFormatter *g_json; SentryFormatter *g_sentry;
PatternFormatter *g_patAll;

LogMessage mk(int type, const char *file, const char *func, const char *cat, const QString &msg)
{
    QMessageLogContext ctx(file, 42, func, cat);
    LogMessage m(TYPES[type], ctx, msg);
    m.setAttribute(QStringLiteral("a"), QStringLiteral("Av"));
    return m;
}

void caseFunc(const std::string &s)
{
    // arbitrary text as function signature AND file name (QML / scripting bindings pass anything)
    auto m = mk(0, s.c_str(), s.c_str(), "cat", QStringLiteral("m"));
    QString a = g_funcFmt->format(m), b = g_functionFmt->format(m);
    sum.digestAdd(s + "=>" + a.toStdString());
    if (sum.outcomes.size() < 2000) sum.outcomes.insert(a.toStdString().substr(0, 24));
    (void)b;
}
void casePattern(const std::string &s)
{
    PatternFormatter f(QString::fromUtf8(s.c_str(), int(s.size())));
    QString acc;
    for (int t : { 0, 2, 4 }) {
        auto m = mk(t, "/p/q/file.cpp", "void N::C::f(int) const", "cat", QString::fromUtf8("hi\xe2\x80\x8b"));
        acc += f.format(m);
    }
    sum.digestAdd(s + "=>" + acc.toStdString());
    if (sum.outcomes.size() < 2000) sum.outcomes.insert(acc.toStdString().substr(0, 24));
}
void caseRules(const std::string &s)
{
    CategoryFilter f(QString::fromUtf8(s.c_str(), int(s.size())));
    std::string v;
    const char *cats[] = { "a", "a.b", "", "debug", s.c_str() };      // the rule text itself as a category too
    for (auto c : cats) for (int t : { 0, 3, 4 }) { auto m = mk(t, "f", "fn", c, QStringLiteral("m")); v += f.filter(m) ? '1' : '0'; }
    sum.digestAdd(s + "=>" + v);
    if (sum.outcomes.size() < 2000) sum.outcomes.insert(v);
}
void caseMessage(const std::string &s)
{
    QString text = QString::fromUtf8(s.c_str(), int(s.size()));
    std::string v;
    for (int t = 0; t < g_types; t++) {
        auto m = mk(t == 0 ? 0 : 5 - t, s.c_str(), s.c_str(), s.c_str(), text);      // the same text as category / file / function as well
        m.setAttribute(QStringLiteral("v"), text);
        for (auto &r : g_rx) v += r->filter(m) ? '1' : '0';
        if (t <= 1) {
            QString o = g_pretty->format(m) + g_prettyColor->format(m) + g_json->format(m) + g_patAll->format(m);
            (void)g_sentry->format(m);
            // column state kept between messages: a formatter with a wide category limit sees this text as category, then short categories
            auto d = mk(t, "f.cpp", "fn", "default", text), c = mk(t, "f.cpp", "fn", "c", text);
            o += g_prettyWide->format(m) + g_prettyWide->format(d) + g_prettyWide->format(c) + g_prettyHuge->format(m) + g_prettyHuge->format(d) + g_prettyHuge->format(c);
            v += std::to_string(o.size() % 7);
        }
    }
    sum.digestAdd(s + "=>" + v);
    if (sum.outcomes.size() < 2000) sum.outcomes.insert(v.substr(0, 30));
}

void runCase(const std::string &domain, const std::string &s)
{
    alarm(g_budget);
    if (domain == "func") caseFunc(s);
    else if (domain == "pattern") casePattern(s);
    else if (domain == "rules") caseRules(s);
    else caseMessage(s);
    alarm(0);
    sum.cases++; sum.transitions++;
}

} // namespace

int main(int argc, char **argv)
{
    QCoreApplication app(argc, argv);
    qInstallMessageHandler([](QtMsgType, const QMessageLogContext &, const QString &) {});   // invalid regexps etc. warn; silence
    std::string domain = vx::argStr(argc, argv, "--domain", "func");
    int len = vx::argInt(argc, argv, "--len", 4), shard = vx::argInt(argc, argv, "--shard", 0), nshards = vx::argInt(argc, argv, "--nshards", 1);
    long long start = atoll(vx::argStr(argc, argv, "--start", "0")), only = atoll(vx::argStr(argc, argv, "--only", "-1"));
    bool longFam = vx::argInt(argc, argv, "--long", 0) != 0;
    int cap = vx::argInt(argc, argv, "--cap", 65536);
    const char *markerPath = vx::argStr(argc, argv, "--marker", nullptr);
    const char *one = vx::argStr(argc, argv, "--one", nullptr);
    g_budget = vx::argInt(argc, argv, "--budget", longFam ? 120 : 5);
    g_types = vx::argInt(argc, argv, "--types", longFam ? 1 : 5);   // the long family runs the regex menu for one message type (the verdict does not depend on the type)
    signal(SIGALRM, onAlarm);
    static Marker local; g_marker = &local;
    if (markerPath) {
        int fd = open(markerPath, O_RDWR | O_CREAT, 0600);
        if (fd < 0 || ftruncate(fd, sizeof(Marker)) != 0) { perror("marker"); return 3; }
        g_marker = (Marker *)mmap(nullptr, sizeof(Marker), PROT_READ | PROT_WRITE, MAP_SHARED, fd, 0);
        if (g_marker == MAP_FAILED) { perror("mmap"); return 3; }
    }
    snprintf(g_marker->domain, sizeof g_marker->domain, "%s", domain.c_str());
    g_marker->caseIdx = -1; g_marker->done = 0;

    PatternFormatter ff(QStringLiteral("%{func}|%{func:>12!}|%{shortfile}|%{shortfile /p}")), fF(QStringLiteral("%{function}|%{file}|%{function:^9!}"));
    g_funcFmt = &ff; g_functionFmt = &fF;
    PrettyFormatter pr(false, 15), prc(true, 3), prw(false, 64), prh(true, 4096); JsonFormatter js(true); SentryFormatter se;
    g_pretty = &pr; g_prettyColor = &prc; g_prettyWide = &prw; g_prettyHuge = &prh; g_json = &js; g_sentry = &se;
    PatternFormatter pa(QStringLiteral("%{time} [%{category:<6!}] %{type:^9} %{message:>20!} %{v?1,1}|%{func}@%{shortfile}:%{line} %{if-fatal}F%{endif}%{threadid}"));
    g_patAll = &pa;
    const char *RX[] = { "a", "^a+$", "(a|b)*c", "(a*)*b", "(a+)+$", "^(\\s*\\S+)*$", "[ab]{2,}", "\\x{1F600}", ".", "^$", "(?i)A\\b", "(\\()" };
    for (auto r : RX) g_rx.push_back(QSharedPointer<RegExpFilter>::create(QString::fromLatin1(r)));

    if (one) { runCase(domain, QByteArray::fromHex(one).toStdString()); sum.print(); return 0; }

    auto alpha = alphabet(domain);
    long long idx = 0;
    auto visit = [&](const std::string &s) {
        long long my = idx++;
        if (only >= 0 ? my != only : ((my % nshards) != shard || my < start)) return;
        g_marker->textLen = (long long)s.size();
        memset(g_marker->text, 0, sizeof g_marker->text); memcpy(g_marker->text, s.data(), std::min(s.size(), sizeof g_marker->text - 1));
        g_marker->caseIdx = my;
        runCase(domain, s);
        g_marker->done = my + 1;
    };
    if (!longFam) {
        std::vector<int> e;
        std::function<void(int)> rec = [&](int left) {
            std::string s; for (int t : e) s += alpha[t];
            visit(s);
            if (!left) return;
            for (size_t i = 0; i < alpha.size(); i++) { e.push_back(int(i)); rec(left - 1); e.pop_back(); }
        };
        rec(len);
        sum.bound = domain + ": all token strings <= " + std::to_string(len) + " over " + std::to_string(alpha.size()) + " tokens";
    } else {
        // every token, and every ordered pair of tokens, repeated up to the size cap; plus nested-bracket shapes
        auto rep = [&](const std::string &unit) { std::string s; if (unit.empty()) return s; while (s.size() + unit.size() <= (size_t)cap) s += unit; return s; };
        for (auto &a : alpha) visit(rep(a));
        for (auto &a : alpha) for (auto &b : alpha) if (a != b) visit(rep(a + b));
        for (auto &a : alpha) for (auto &b : alpha) if (a != b) { std::string h = rep(a), t = rep(b); visit(h.substr(0, h.size() / 2) + t.substr(0, t.size() / 2)); }   // a^n b^n
        sum.bound = domain + ": every token and ordered token pair repeated to " + std::to_string(cap) + " bytes, and a^n b^n";
    }
    sum.states = sum.cases;
    sum.counters["cases_" + domain + (longFam ? "_long" : "")] = sum.cases;
    sum.print();
    return 0;
}
