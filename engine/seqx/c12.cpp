// C12: every pattern of <= K tokens over a documented-syntax alphabet x adversarial values x all types is formatted by the real
// PatternFormatter and by an independent reference written from docs/api/formatters.md on UTF-16 code units.
// Where the documentation is silent the reference returns an accept-set, or the pattern is left out (counted) — see DESIGN.md.
#include "common.h"
#include <algorithm>
#include "vx_qtlogger.h"

using namespace QtLogger;
typedef std::u16string U;

namespace {

U u(const char *s) { return QString::fromUtf8(s).toStdU16String(); }
U uq(const QString &s) { return s.toStdU16String(); }
QString qs(const U &s) { return QString::fromStdU16String(s); }

// ------------------------------------------------------------------------------------------------ reference
struct Msg {
    QtMsgType type; U message, category, file, function, funcClean; int line; quint64 threadId; QDateTime time;
    std::map<U, U> attrs;
};
const char *TYPE_NAME[] = { "debug", "warning", "critical", "fatal", "info" }; // indexed by QtMsgType value

struct Spec { bool has = false; char16_t fill = u' '; char align = 0; int width = 0; bool bang = false; bool explicitFill = false; };

// [fill][align]width[!]  |  width!      (documented grammar; anything else is "no spec")
bool parseSpec(const U &s, Spec &sp)
{
    sp = Spec();
    U t = s;
    if (t.empty()) return false;
    if (t.back() == u'!') { sp.bang = true; t.pop_back(); if (t.empty()) return false; }
    size_t pos = 0;
    auto isAlign = [](char16_t c) { return c == u'<' || c == u'>' || c == u'^'; };
    if (t.size() >= 2 && isAlign(t[1])) { sp.fill = t[0]; sp.align = (char)t[1]; sp.explicitFill = true; pos = 2; }
    else if (isAlign(t[0])) { sp.align = (char)t[0]; pos = 1; }
    else if (!sp.bang) return false;
    if (pos >= t.size()) return false;
    int w = 0;
    for (size_t i = pos; i < t.size(); i++) { if (t[i] < u'0' || t[i] > u'9') return false; w = w * 10 + (t[i] - u'0'); if (w > 100000) return false; }
    if (w <= 0) return false;
    sp.width = w; sp.has = true;
    return true;
}

size_t codePoints(const U &v) { size_t n = 0; for (size_t i = 0; i < v.size(); i++) { if (v[i] >= 0xD800 && v[i] <= 0xDBFF && i + 1 < v.size()) i++; n++; } return n; }

// documented tables: padding only (no !), truncation only (! without fill), truncation and padding (! with fill)
// returns accept-set (two entries when the value has astral characters: widths counted in code units or in code points)
std::vector<U> applySpec(const Spec &sp, const U &v, bool &ambiguous)
{
    ambiguous = false;
    if (!sp.has) return { v };
    bool astral = codePoints(v) != v.size();
    auto pad = [&](const U &val, size_t len) {
        if ((int)len >= sp.width) return val;
        size_t p = sp.width - len;
        switch (sp.align) {
        case '<': return val + U(p, sp.fill);
        case '>': return U(p, sp.fill) + val;
        case '^': return U(p / 2, sp.fill) + val + U(p - p / 2, sp.fill);
        default: return val;
        }
    };
    bool truncates = sp.bang && (astral ? codePoints(v) > (size_t)sp.width || v.size() > (size_t)sp.width : v.size() > (size_t)sp.width);
    if (truncates && astral) { ambiguous = true; return {}; } // "characters" = code units or code points? the documentation does not say
    U val = v;
    if (truncates) val = (sp.align == '>') ? v.substr(v.size() - sp.width) : v.substr(0, sp.width);
    bool pads = !sp.bang || sp.explicitFill; // "!" without fill: truncate only
    if (!pads || sp.align == 0) return { val };
    std::vector<U> out { pad(val, val.size()) };
    if (astral) out.push_back(pad(val, codePoints(val)));
    return out;
}

U pad2(int v, int w) { QString s = QString::number(v); while (s.size() < w) s.prepend('0'); return uq(s); }

struct RefResult { std::vector<U> accept; bool excluded = false; std::string why; bool timeShape = false; };

// independent scanner + evaluator. Output under construction is a set of candidate strings (accept-set).
RefResult reference(const U &pat, const Msg &m)
{
    RefResult R;
    // a candidate output together with the number of characters a missing optional attribute still wants removed
    // from what follows it (the documentation shows literal neighbours only; for a value neighbour three readings
    // are accepted: value untouched and the request dropped, value shortened, value shortened and the rest carried on)
    struct Cand { U s; int pend; bool operator<(const Cand &o) const { return s != o.s ? s < o.s : pend < o.pend; } };
    std::vector<Cand> outs { { U(), 0 } };
    auto norm = [&] { std::sort(outs.begin(), outs.end()); outs.erase(std::unique(outs.begin(), outs.end(), [](const Cand &a, const Cand &b) { return a.s == b.s && a.pend == b.pend; }), outs.end());
                      if (outs.size() > 64) { R.excluded = true; R.why = "accept-set larger than 64 candidates"; outs.resize(64); } };
    auto put = [&](const std::vector<U> &alts) {
        std::vector<Cand> n;
        for (auto &o : outs) for (auto &a : alts) {
            if (o.pend <= 0) { n.push_back({ o.s + a, 0 }); continue; }
            size_t cut = std::min((size_t)o.pend, a.size());
            n.push_back({ o.s + a, 0 });
            n.push_back({ o.s + a.substr(cut), 0 });
            n.push_back({ o.s + a.substr(cut), o.pend - (int)cut });
        }
        outs.swap(n); norm(); };
    bool haveCond = false; QtMsgType cond = QtDebugMsg;
    bool anyToken = false; // a pattern made of if-/endif only has no token at all: degenerate, left out
    int pendingRemoveAfter = 0; bool lastWasLiteralEmit = false; size_t lastLiteralLen = 0;
    U lit;
    auto flushLit = [&] {
        if (lit.empty()) return;
        anyToken = true;
        bool shown = !haveCond || cond == m.type;
        if (shown) {
            size_t minLen = lit.size();
            for (auto &o : outs) {
                U t = lit;
                if (o.pend > 0) {
                    if ((size_t)o.pend > t.size()) { R.excluded = true; R.why = "removeAfter longer than the following literal"; }
                    t = t.substr(std::min((size_t)o.pend, t.size()));
                    o.pend = 0;
                }
                o.s += t; minLen = std::min(minLen, t.size());
            }
            norm();
            pendingRemoveAfter = 0;
            lastWasLiteralEmit = true; lastLiteralLen = minLen;
        }
        lit.clear();
    };
    auto valueEmitted = [&] { pendingRemoveAfter = 0; lastWasLiteralEmit = false; lastLiteralLen = 0; };
    size_t i = 0;
    while (i < pat.size()) {
        if (pat[i] == u'%' && i + 1 < pat.size() && pat[i + 1] == u'%') { lit += u'%'; i += 2; continue; }
        if (pat[i] == u'%' && i + 1 < pat.size() && pat[i + 1] == u'{') {
            size_t close = pat.find(u'}', i + 2);
            if (close == U::npos) { flushLit(); lit += u'%'; i++; continue; } // unterminated: literal text, reproduced unchanged (a literal may be split here: the two pieces are separate "following literals" for removeAfter)
            flushLit();
            U ph = pat.substr(i + 2, close - i - 2);
            i = close + 1;
            Spec sp;
            size_t colon = ph.rfind(u':');
            if (colon != U::npos && colon + 1 < ph.size()) { if (parseSpec(ph.substr(colon + 1), sp)) ph = ph.substr(0, colon); else sp = Spec(); }
            if (ph.compare(0, 3, u"if-") == 0) {
                U t = ph.substr(3);
                int ty = -1;
                for (int k = 0; k < 5; k++) if (t == u(TYPE_NAME[k])) ty = k;
                if (ty < 0) { R.excluded = true; R.why = "unknown if- name"; return R; }
                if (haveCond) { R.excluded = true; R.why = "nested/unclosed conditional"; return R; }
                haveCond = true; cond = QtMsgType(ty);
                continue;
            }
            if (ph == u"endif") { if (!haveCond) { R.excluded = true; R.why = "endif without if"; return R; } haveCond = false; continue; }
            bool shown = !haveCond || cond == m.type;
            anyToken = true;
            U val; bool isValue = true; bool timeShape = false; std::vector<U> valAlts;
            if (ph == u"message") val = m.message;
            else if (ph == u"type") val = u(TYPE_NAME[m.type]);
            else if (ph == u"category") val = m.category;
            else if (ph == u"file") val = m.file;
            else if (ph == u"line") val = uq(QString::number(m.line));
            else if (ph == u"function") val = m.function;
            else if (ph == u"func") val = m.funcClean;
            else if (ph == u"threadid") val = uq(QString::number(m.threadId));
            else if (ph == u"qthreadptr") val = u"0x" + uq(QString::number(m.threadId, 16));
            else if (ph == u"shortfile") { size_t s = m.file.rfind(u'/'); val = s == U::npos ? m.file : m.file.substr(s + 1); }
            else if (ph.compare(0, 10, u"shortfile ") == 0) {
                U base = ph.substr(10);
                while (!base.empty() && base.front() == u' ') base.erase(0, 1);
                while (!base.empty() && base.back() == u' ') base.pop_back();
                if (!base.empty() && m.file.compare(0, base.size(), base) == 0) { val = m.file.substr(base.size()); if (!val.empty() && val[0] == u'/') val.erase(0, 1); }
                else val = m.file;
            } else if (ph == u"time") {
                // ISO 8601: the documentation's example has milliseconds, Qt::ISODate has none -> both accepted
                QDate d = m.time.date(); QTime t = m.time.time();
                U base = pad2(d.year(), 4) + u"-" + pad2(d.month(), 2) + u"-" + pad2(d.day(), 2) + u"T" + pad2(t.hour(), 2) + u":" + pad2(t.minute(), 2) + u":" + pad2(t.second(), 2);
                valAlts = { base, base + u"." + pad2(t.msec(), 3) };
            } else if (ph == u"time process" || ph == u"time boot") { timeShape = true; }
            else if (ph.compare(0, 5, u"time ") == 0) {
                // documented specifiers only: yyyy MM dd hh mm ss zzz, everything else literal
                U f = ph.substr(5);
                while (!f.empty() && f.front() == u' ') f.erase(0, 1);
                while (!f.empty() && f.back() == u' ') f.pop_back();
                QDate d = m.time.date(); QTime t = m.time.time();
                size_t k = 0;
                while (k < f.size()) {
                    auto at = [&](const char16_t *tok) { U tt(tok); return f.compare(k, tt.size(), tt) == 0; };
                    if (at(u"yyyy")) { val += pad2(d.year(), 4); k += 4; }
                    else if (at(u"MM")) { val += pad2(d.month(), 2); k += 2; }
                    else if (at(u"dd")) { val += pad2(d.day(), 2); k += 2; }
                    else if (at(u"hh")) { val += pad2(t.hour(), 2); k += 2; }
                    else if (at(u"mm")) { val += pad2(t.minute(), 2); k += 2; }
                    else if (at(u"ss")) { val += pad2(t.second(), 2); k += 2; }
                    else if (at(u"zzz")) { val += pad2(t.msec(), 3); k += 3; }
                    else if (QChar(f[k]).isLetter()) { R.excluded = true; R.why = "time format beyond the documented specifiers"; return R; }
                    else { val += f[k]; k++; }
                }
            } else {
                // attribute: name | name?[N][,M]
                isValue = false;
                size_t q = ph.find(u'?');
                U name = q == U::npos ? ph : ph.substr(0, q);
                bool optional = q != U::npos;
                int N = 0, M = 0;
                if (optional) {
                    U suf = ph.substr(q + 1);
                    size_t comma = suf.find(u',');
                    auto num = [&](const U &x, int &out) { out = 0; for (char16_t c : x) { if (c < u'0' || c > u'9') return false; out = out * 10 + (c - u'0'); } return true; };
                    bool ok = comma == U::npos ? num(suf, N) : (num(suf.substr(0, comma), N) && num(suf.substr(comma + 1), M));
                    if (!ok) { R.excluded = true; R.why = "malformed ?N,M"; return R; }
                }
                auto it = m.attrs.find(name);
                if (it != m.attrs.end()) { val = it->second; isValue = true; }
                else if (!optional) { R.excluded = true; R.why = "missing non-optional attribute (documented as an error)"; return R; }
                else if (shown) {
                    // missing optional attribute: remove N characters before, M after — documented for literal neighbours only
                    if (N > 0) {
                        if (!lastWasLiteralEmit || lastLiteralLen < (size_t)N) { R.excluded = true; R.why = "removeBefore reaches beyond the preceding literal"; return R; }
                        for (auto &o : outs) o.s.resize(o.s.size() - N);
                        lastLiteralLen -= N;
                    }
                    for (auto &o : outs) if (o.pend > 0) { R.excluded = true; R.why = "two pending removeAfter counts"; return R; }
                    if (pendingRemoveAfter > 0) { R.excluded = true; R.why = "two pending removeAfter counts"; return R; }
                    pendingRemoveAfter = M;
                    for (auto &o : outs) o.pend = M;
                    continue;
                } else continue;
            }
            if (!shown) continue;
            valueEmitted();
            if (R.excluded) return R;
            if (timeShape) { R.timeShape = true; put({ U(1, char16_t(0xFFFF)) }); continue; } // placeholder checked by shape
            bool amb = false;
            std::vector<U> alts;
            if (valAlts.empty()) alts = applySpec(sp, val, amb);
            else for (auto &v : valAlts) { auto a = applySpec(sp, v, amb); alts.insert(alts.end(), a.begin(), a.end()); }
            if (amb) { R.excluded = true; R.why = "truncation of a value with astral characters"; return R; }
            (void)isValue;
            put(alts);
            continue;
        }
        lit += pat[i]; i++;
    }
    flushLit();
    if (haveCond) { R.excluded = true; R.why = "unclosed conditional"; return R; }
    if (pendingRemoveAfter > 0) { /* nothing follows: nothing to remove */ }
    if (pat.empty() || !anyToken) { R.excluded = true; R.why = "empty / degenerate pattern (no token)"; return R; }
    for (auto &o : outs) R.accept.push_back(o.s);
    std::sort(R.accept.begin(), R.accept.end()); R.accept.erase(std::unique(R.accept.begin(), R.accept.end()), R.accept.end());
    return R;
}

bool matches(const U &got, const RefResult &r)
{
    for (auto &a : r.accept) {
        if (!r.timeShape) { if (a == got) return true; continue; }
        // 0xFFFF stands for a seconds value "\d+\.\d{3}" — match by a tiny backtracking-free scan (one placeholder supported per candidate)
        size_t p = a.find(char16_t(0xFFFF));
        U pre = a.substr(0, p), post = a.substr(p + 1);
        if (post.find(char16_t(0xFFFF)) != U::npos) return true; // several: only prefix checked
        if (got.size() < pre.size() + post.size() + 5) continue;
        if (got.compare(0, pre.size(), pre) != 0) continue;
        if (got.compare(got.size() - post.size(), post.size(), post) != 0) continue;
        U mid = got.substr(pre.size(), got.size() - pre.size() - post.size());
        size_t dot = mid.find(u'.');
        bool ok = dot != U::npos && dot > 0 && mid.size() - dot - 1 == 3;
        for (size_t k = 0; ok && k < mid.size(); k++) if (k != dot && (mid[k] < u'0' || mid[k] > u'9')) ok = false;
        if (ok) return true;
    }
    return false;
}

// ------------------------------------------------------------------------------------------------ alphabets
std::vector<std::string> tokenAlphabet()
{
    return {
        // literals
        "x", "ab", "%%", " [", "] ", "}", "{", "%", ":", "-- ",
        // plain values
        "%{message}", "%{type}", "%{category}", "%{line}", "%{file}", "%{shortfile}", "%{shortfile /base}", "%{function}", "%{func}", "%{threadid}", "%{qthreadptr}",
        "%{time yyyy-MM-dd hh:mm:ss.zzz}", "%{time}", "%{time process}", "%{time hh:mm}",
        // attributes (a, p present; o absent)
        "%{a}", "%{p?2}", "%{o?}", "%{o?1}", "%{o?1,1}", "%{o?,2}", "%{o?2,1}",
        // format specs (the four documentation tables)
        "%{type:<8}", "%{type:>8}", "%{type:^8}", "%{type:*<8}", "%{type:0>3}", "%{type:3!}", "%{type:10!}", "%{type:<3!}", "%{type:>3!}", "%{type:*^4!}", "%{type:x<3!}", "%{type: <8!}",
        "%{message:^7}", "%{message:>3!}", "%{message:-<6!}", "%{message:2!}", "%{a:_^6}", "%{a:>2!}", "%{line:0>5}", "%{category:<10!}", "%{o?1:<5}",
        // conditionals
        "%{if-debug}", "%{if-info}", "%{if-warning}", "%{if-critical}", "%{if-fatal}", "%{endif}",
    };
}
const char *TAILS[] = { "", "%{abc", "%{", "%" };

struct Val { const char *name; QString s; };
std::vector<Val> values()
{
    return {
        { "empty", QStringLiteral("") }, { "hi", QStringLiteral("hi") }, { "hello world", QStringLiteral("hello world") }, { "%{type}", QStringLiteral("%{type}") },
        { "}", QStringLiteral("}") }, { "%", QStringLiteral("%") }, { "ZWSP", QString(QChar(0x200B)) }, { "a+ZWSP", QStringLiteral("a") + QChar(0x200B) },
        { "ZWSP+b+ZWSP+ZWSP", QString(QChar(0x200B)) + QStringLiteral("b") + QChar(0x200B) + QChar(0x200B) },
        { "astral", QString::fromUtf8("\xF0\x9F\x98\x80x") }, { "{", QStringLiteral("{") }, { "%%", QStringLiteral("%%") }, { ":<5", QStringLiteral(":<5") },
        { "combining", QString::fromUtf8("e\xCC\x81!") }, { "rtl+nbsp", QString::fromUtf8("\xD7\xA9\xC2\xA0.") },
    };
}

struct Sig { const char *raw; const char *clean; };
const Sig SIGS[] = {
    { "void foo()", "foo" }, { "int Ns::Cls::bar(int, char**)", "Ns::Cls::bar" }, { "virtual bool A::b(const QString &) const", "A::b" }, { "main", "main" }, { "", "" },
};

} // namespace

int main(int argc, char **argv)
{
    int K = vx::argInt(argc, argv, "--tokens", 3);
    int shard = vx::argInt(argc, argv, "--shard", 0), nshards = vx::argInt(argc, argv, "--nshards", 1);
    int valueMode = vx::argInt(argc, argv, "--values", 0); // 0 all values x all types; 1 reduced (for the deepest level)
    const char *one = vx::argStr(argc, argv, "--pattern", nullptr);
    vx::Summary sum;
    auto alpha = tokenAlphabet();
    auto vals = values();
    sum.bound = "patterns <= " + std::to_string(K) + " tokens over " + std::to_string(alpha.size()) + " tokens (+4 tails) x " + std::to_string(vals.size()) + " values x 5 types";

    std::map<std::string, long long> excl;
    long long patNo = 0;

    auto runPattern = [&](const std::string &patUtf8, bool deep) {
        QString pattern = QString::fromUtf8(patUtf8.c_str());
        PatternFormatter pf(pattern);
        U pat = uq(pattern);
        bool usesFunc = patUtf8.find("%{func") != std::string::npos;
        int nsig = usesFunc ? (int)(sizeof SIGS / sizeof SIGS[0]) : 1;
        for (size_t vi = 0; vi < vals.size(); vi++) {
            if (deep && !(vi == 1 || vi == 3 || vi == 7 || vi == 9)) continue;
            for (int ty = 0; ty < 5; ty++) {
                if (deep && !(ty == 0 || ty == 2)) continue;
                for (int si = 0; si < nsig; si++) {
                    const QString &v = vals[vi].s;
                    QByteArray fn = SIGS[si].raw;
                    QMessageLogContext ctx("/base/src/main.cpp", 42, fn.constData(), "net.io");
                    LogMessage lm(QtMsgType(ty), ctx, v);
                    lm.setAttribute(QStringLiteral("a"), v);
                    lm.setAttribute(QStringLiteral("p"), 7);
                    Msg m { QtMsgType(ty), uq(v), u"net.io", u"/base/src/main.cpp", u(SIGS[si].raw), u(SIGS[si].clean), 42, lm.threadId(), lm.time(), { { u"a", uq(v) }, { u"p", u"7" } } };
                    RefResult r = reference(pat, m);
                    sum.cases++;
                    if (r.excluded) { excl[r.why]++; continue; }
                    U got = uq(pf.format(lm));
                    sum.transitions++;
                    sum.digestAdd(patUtf8 + "|" + vals[vi].name + "|" + std::to_string(ty) + "|" + (r.timeShape || patUtf8.find("%{time") != std::string::npos || patUtf8.find("thread") != std::string::npos ? std::string("t") : qs(got).toStdString()));
                    if (!matches(got, r)) {
                        bool zw = v.contains(QChar(0x200B));
                        std::string key = zw ? "value-contains-U+200B" : (patUtf8.find('!') != std::string::npos || patUtf8.find(":") != std::string::npos ? "spec" : patUtf8.find('?') != std::string::npos ? "optional-attr" : patUtf8.find("if-") != std::string::npos ? "conditional" : "other");
                        sum.violate(key, "pattern " + vx::jesc(pattern) + " with message/attribute value '" + vx::jesc(v) + "' (" + vals[vi].name + "), type " + TYPE_NAME[ty] + ": output '" + vx::jesc(qs(got)) +
                                             "' but the documented rules give '" + vx::jesc(qs(r.accept.empty() ? U() : *std::max_element(r.accept.begin(), r.accept.end(), [](const U &a, const U &b) { return a.size() < b.size(); }))) + "'" + (r.accept.size() > 1 ? " (or " + std::to_string(r.accept.size() - 1) + " accepted variants)" : ""),
                                    "{\"pattern\":" + vx::jstr(pattern) + ",\"value\":" + vx::jstr(v) + ",\"type\":" + std::to_string(ty) + ",\"sig\":" + std::to_string(si) + "}");
                    } else if (sum.samples.size() < 5 && patUtf8.size() > 18 && vi == 2) {
                        sum.sample("{\"pattern\":" + vx::jstr(pattern) + ",\"value\":" + vx::jstr(v) + ",\"type\":" + vx::jstr(TYPE_NAME[ty]) + ",\"output\":" + vx::jstr(qs(got)) + "}");
                    }
                    if ((sum.transitions % 4096) == 1) sum.outcomes.insert(qs(got).toStdString());
                }
            }
        }
    };

    if (one) { runPattern(one, false); sum.states = 1; sum.print(); return 0; }

    // every sequence of 1..K tokens (+ each tail), sharded by pattern number
    std::vector<int> idx;
    std::function<void(int)> rec = [&](int depth) {
        if (!idx.empty()) {
            if ((patNo++ % nshards) == shard) {
                std::string p;
                for (int i : idx) p += alpha[i];
                bool deep = valueMode == 1 && (int)idx.size() == K;
                for (const char *t : TAILS) { if (deep && *t) continue; runPattern(p + t, deep); sum.states++; }
            }
        }
        if (depth == K) return;
        for (int i = 0; i < (int)alpha.size(); i++) { idx.push_back(i); rec(depth + 1); idx.pop_back(); }
    };
    if (K > 0) rec(0);
    // Longer patterns over a REDUCED alphabet built around the conditionals: the same placeholder inside blocks of different types,
    // inside and outside a block, repeated after a block ... (two well-formed blocks need six tokens, out of reach of the full alphabet)
    int K2 = vx::argInt(argc, argv, "--cond-tokens", 0);
    if (K2 > 0) {
        const std::vector<std::string> R = { "%{if-debug}", "%{if-critical}", "%{endif}", "%{message}", "%{type}", "%{a}", "x", "%{o?,1}", "%{message:>5}" };
        std::vector<int> e;
        std::function<void(int)> rec2 = [&](int depth) {
            if ((int)e.size() > K && (patNo++ % nshards) == shard) {      // the short ones were covered above
                std::string p;
                for (int i : e) p += R[i];
                runPattern(p, true); sum.states++; sum.counters["conditional_family_patterns"]++;
            }
            if (depth == K2) return;
            for (int i = 0; i < (int)R.size(); i++) { e.push_back(i); rec2(depth + 1); e.pop_back(); }
        };
        rec2(0);
    }

    // Format-spec family: the whole grammar [fill][align]width[!] on three placeholders - every fill from a set that includes the three
    // alignment characters themselves, every alignment, widths around the value lengths, with and without '!'
    if (vx::argInt(argc, argv, "--spec-family", 0)) {
        const char *fills[] = { "", "*", "0", " ", "<", ">", "^", "!", "x", "-", "_" };
        const char *aligns[] = { "", "<", ">", "^" };
        const char *widths[] = { "1", "2", "5", "8", "12", "05", "007" };
        const char *phs[] = { "type", "message", "a", "o?1" };
        for (auto ph : phs) for (auto f : fills) for (auto a : aligns) for (auto w : widths) for (auto b : { "", "!" }) {
            if (*f && !*a) continue;                       // a fill needs an alignment
            if ((patNo++ % nshards) != shard) continue;
            std::string p = std::string("[%{") + ph + ":" + f + a + w + b + "}]";
            runPattern(p, false); sum.states++; sum.counters["spec_family_patterns"]++;
        }
    }
    // Source-location strings that live in caller-owned buffers which are REUSED for the next message (same addresses, new contents):
    // one formatter object, consecutive messages, each judged on its own
    if (vx::argInt(argc, argv, "--reuse-family", 0) && shard == 0) {
        static char bFile[128], bFunc[256], bCat[64];
        const char *files[] = { "/base/src/main.cpp", "/base/x.cpp", "y.h" };
        const char *cats[] = { "net.io", "ui", "default" };
        const char *pats[] = { "%{function}", "%{func}", "%{file}", "%{shortfile}", "%{shortfile /base}", "%{category}", "%{function}|%{func}|%{file}|%{shortfile}|%{category}", "%{func:>6!}|%{category:<8}|%{shortfile:^9}" };
        const int NS = (int)(sizeof SIGS / sizeof SIGS[0]);
        for (auto pat8 : pats) {
            QString pattern = QString::fromUtf8(pat8);
            PatternFormatter pf(pattern);
            U pat = uq(pattern);
            for (int i = 0; i < NS; i++) for (int j = 0; j < NS; j++) {
                const int order[3] = { i, j, i };
                for (int k = 0; k < 3; k++) {
                    int si = order[k];
                    snprintf(bFunc, sizeof bFunc, "%s", SIGS[si].raw); snprintf(bFile, sizeof bFile, "%s", files[(si + k) % 3]); snprintf(bCat, sizeof bCat, "%s", cats[(si + 2 * k) % 3]);
                    QMessageLogContext ctx(bFile, 42, bFunc, bCat);
                    LogMessage lm(QtDebugMsg, ctx, QStringLiteral("hi"));
                    Msg m { QtDebugMsg, u"hi", u(bCat), u(bFile), u(SIGS[si].raw), u(SIGS[si].clean), 42, lm.threadId(), lm.time(), {} };
                    RefResult r = reference(pat, m);
                    sum.cases++; sum.counters["reused_buffer_cases"]++;
                    if (r.excluded) { excl[r.why]++; continue; }
                    U got = uq(pf.format(lm));
                    sum.transitions++;
                    if (!matches(got, r))
                        sum.violate("reused-buffers", std::string("pattern ") + pat8 + ", message " + std::to_string(k + 1) + " of 3 through one formatter, function/file/category handed over in reused buffers (now '" + bFunc + "', '" + bFile + "', '" + bCat + "'): output '" + vx::jesc(qs(got)) +
                                                          "' but the documented rules give '" + vx::jesc(qs(r.accept.empty() ? U() : r.accept.front())) + "'",
                                    "{\"pattern\":" + vx::jstr(pattern) + ",\"reused_buffers\":true,\"sigs\":[" + std::to_string(i) + "," + std::to_string(j) + "," + std::to_string(i) + "],\"message\":" + std::to_string(k) + "}");
                }
            }
        }
    }
    for (auto &kv : excl) sum.counters["excluded: " + kv.first] = kv.second;
    sum.print();
    return 0;
}
