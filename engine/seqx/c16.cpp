// C16: BFS over message sequences fed to the real LevelFilter / DuplicateFilter / SeqNumberAttr,
// with one filter+counter instance shared by two pipelines. Canonical state is read through the
// public API by probing *copies* of the stateful handlers. Also emits (regex, text, verdict)
// triples of RegExpFilter for the independent Python `re` oracle.
#include "common.h"
#include "vx_qtlogger.h"

using namespace QtLogger;

namespace {

const int NTEXT = 9;
QString TEXTS[NTEXT];
const char *TNAME[NTEXT] = { "(null)", "\"\"", "a", "A", "a_", "e-acute-NFC", "e-acute-NFD", "Aa", "BB" };   // "Aa" / "BB": equal length, equal 31-polynomial hash (Qt's qHash with seed 0, Java's hashCode)
const QtMsgType TYPES[5] = { QtDebugMsg, QtInfoMsg, QtWarningMsg, QtCriticalMsg, QtFatalMsg };
const char *TYN[5] = { "debug", "info", "warning", "critical", "fatal" };
int prio(int ti) { return ti; } // index in TYPES is the documented severity order

struct Msg { int text, type, pipe; };
std::string mshow(const Msg &m) { return std::string("{") + TNAME[m.text] + "," + TYN[m.type] + ",P" + std::to_string(m.pipe + 1) + "}"; }
std::string hshow(const std::vector<Msg> &h) { std::string s = "["; for (size_t i = 0; i < h.size(); i++) s += (i ? "," : "") + vx::jstr(mshow(h[i])); return s + "]"; }

struct Seen { int sink; QString text; int seq; bool hasSeq; };

struct RecSink : Sink { int id; std::vector<Seen> *log; RecSink(int id, std::vector<Seen> *l) : id(id), log(l) {}
    void send(const LogMessage &m) override { log->push_back({ id, m.message(), m.attribute(QStringLiteral("seq_number")).toInt(), m.hasAttribute(QStringLiteral("seq_number")) }); } };
struct Rej : Filter { bool filter(const LogMessage &) override { return false; } };
// every message gets the SAME formatted text: a filter that looked at the formatted text instead of the message text
// would see one long run of duplicates
struct ConstFmt : Formatter { QString format(const LogMessage &) override { return QStringLiteral("formatted"); } };

LogMessage mk(int text, int type)
{
    static QMessageLogContext ctx("f.cpp", 3, "fn()", "cat");
    return LogMessage(TYPES[type], ctx, TEXTS[text]);
}

struct World {
    QSharedPointer<DuplicateFilter> dup = QSharedPointer<DuplicateFilter>::create();
    QSharedPointer<SeqNumberAttr> seq = QSharedPointer<SeqNumberAttr>::create();
    std::vector<Seen> log;
    Pipeline p1, p2;
    // reference automata
    QString last = QStringLiteral(""); int count = 0;
    World()
    {
        p1 << seq << dup << QSharedPointer<RecSink>::create(1, &log);
        p2 << QSharedPointer<ConstFmt>::create() << seq << dup << QSharedPointer<Rej>::create() << QSharedPointer<RecSink>::create(2, &log);
    }
    std::string canon() const
    {
        std::string s = "drop:";
        for (int t = 0; t < NTEXT; t++) { DuplicateFilter c(*dup); auto m = mk(t, 0); s += c.filter(m) ? '.' : 'X'; }
        SeqNumberAttr c(*seq); auto m = mk(2, 0);
        s += " next=" + std::to_string(c.attributes(m).value(QStringLiteral("seq_number")).toInt());
        return s;
    }
};

// returns canon; checks every step
std::string runHistory(const std::vector<Msg> &h, vx::Summary *sum, bool *bad)
{
    World w;
    if (bad) *bad = false;
    for (size_t i = 0; i < h.size(); i++) {
        const Msg &mm = h[i];
        auto m = mk(mm.text, mm.type);
        w.log.clear();
        (mm.pipe ? w.p2 : w.p1).process(m);
        // reference
        int n = w.count++;
        bool pass = !(TEXTS[mm.text] == w.last);
        if (pass) w.last = TEXTS[mm.text];
        bool expectDelivery = pass && mm.pipe == 0;
        bool ok = true; std::string why;
        if (expectDelivery) {
            if (w.log.size() != 1 || w.log[0].sink != 1 || !w.log[0].hasSeq || w.log[0].seq != n) { ok = false; why = "expected delivery to sink 1 with seq_number " + std::to_string(n) + ", got " + std::to_string(w.log.size()) + " deliveries" + (w.log.size() ? " seq=" + std::to_string(w.log[0].seq) : ""); }
        } else if (!w.log.empty()) { ok = false; why = std::string("expected the message to be ") + (pass ? "stopped by the rejecting filter" : "dropped as a duplicate") + " but a sink received it"; }
        // the counter must have advanced exactly once whether or not the message was dropped later
        if (ok && m.attribute(QStringLiteral("seq_number")).toInt() != n) { ok = false; why = "message carries seq_number " + m.attribute(QStringLiteral("seq_number")).toString().toStdString() + ", expected " + std::to_string(n); }
        if (sum && i + 1 == h.size()) {
            sum->transitions++;
            { std::string d = hshow(h) + "=>"; for (auto &x : w.log) d += std::to_string(x.sink) + ":" + std::to_string(x.seq) + ";"; d += m.attribute(QStringLiteral("seq_number")).toString().toStdString(); sum->digestAdd(d); }
            sum->outcomes.insert(std::string(pass ? "pass" : "drop") + (mm.pipe ? "2" : "1"));
            // level filter: all 5 thresholds on this message (stateless; 25 pairs covered at depth 1 already)
            for (int th = 0; th < 5; th++) {
                LevelFilter lf(TYPES[th]);
                bool v = lf.filter(m), e = prio(mm.type) >= prio(th);
                { LogMessage fm(m); fm.setFormattedMessage(QStringLiteral("fatal critical")); fm.setAttribute(QStringLiteral("type"), QStringLiteral("fatal")); if (lf.filter(fm) != v) v = !e; }
                sum->counters[v ? "level_pass" : "level_drop"]++;
                if (v != e) sum->violate(std::string("level:") + TYN[th] + "/" + TYN[mm.type], std::string("LevelFilter(") + TYN[th] + ") " + (v ? "passes" : "drops") + " a " + TYN[mm.type] + " message", "{\"kind\":\"c16-level\",\"threshold\":" + vx::jstr(TYN[th]) + ",\"type\":" + vx::jstr(TYN[mm.type]) + "}");
            }
        }
        if (!ok) {
            if (bad) *bad = true;
            if (sum && i + 1 == h.size()) sum->violate(std::string("seq/dup:") + (pass ? "pass" : "dup") + (mm.pipe ? "P2" : "P1"), "history " + hshow(h) + ": " + why, "{\"kind\":\"c16\",\"history\":" + hshow(h) + "}");
            break;
        }
    }
    return w.canon();
}

// ------------------------------------------------------------ regex triples for the Python oracle
void regexDump(const char *path, int maxTok, int maxLen, vx::Summary &sum)
{
    FILE *f = fopen(path, "w");
    if (!f) { fprintf(stderr, "cannot write %s\n", path); exit(3); }
    const char *TOK[] = { "a", "b", ".", "*", "|", "(", ")", "^", "$", "[ab]", "?", "+", "(a)", "(b*)", "\\1" };   // groups and a back-reference as single tokens
    const int NT = 15;
    std::vector<QString> strs { QString() };
    { std::vector<QString> cur { QStringLiteral("") }; const char *SY[] = { "a", "b", "\n" };
      strs = cur;
      for (int l = 1; l <= maxLen; l++) { std::vector<QString> nx; for (auto &s : cur) for (auto c : SY) nx.push_back(s + c); strs.insert(strs.end(), nx.begin(), nx.end()); cur = nx; } }
    std::vector<int> e;
    qInstallMessageHandler([](QtMsgType, const QMessageLogContext &, const QString &) {}); // invalid patterns warn; silence
    std::function<void(int)> rec = [&](int left) {
        if (!e.empty()) {
            QString re; for (int t : e) re += TOK[t];
            RegExpFilter flt(re);
            QRegularExpression probe(re);
            std::string line = re.toStdString() + "\t" + (probe.isValid() ? "1" : "0") + "\t";
            for (auto &s : strs) {
                static QMessageLogContext ctx("f", 1, "fn", "c");
                LogMessage m(QtDebugMsg, ctx, s);
                bool verdict = flt.filter(m);
                line += verdict ? '1' : '0';
                if (&s == &strs.back()) sum.digestAdd(line);
                sum.counters["regex_cases"]++;
                // "matches the message text": the verdict may not depend on what a formatter upstream produced, nor on attributes
                const QString deco[3] = { QStringLiteral("ab\nab") + s + QStringLiteral("ba"), QStringLiteral(""), QStringLiteral("zz") };
                for (auto &dtxt : deco) {
                    LogMessage fm(m); fm.setFormattedMessage(dtxt); fm.setAttribute(QStringLiteral("message"), dtxt);
                    sum.counters["regex_cases_behind_formatter"]++;
                    if (flt.filter(fm) != verdict)
                        sum.violate("regex:formatted-text", "RegExpFilter(" + re.toStdString() + ") decides differently on message text " + vx::jstr(s) + " once the message carries the formatted text " + vx::jstr(dtxt),
                                    "{\"kind\":\"c16-regex-formatted\",\"regex\":" + vx::jstr(re) + ",\"text\":" + vx::jstr(s) + ",\"formatted\":" + vx::jstr(dtxt) + "}");
                }
            }
            fprintf(f, "%s\n", line.c_str());
        }
        if (!left) return;
        for (int t = 0; t < NT; t++) { e.push_back(t); rec(left - 1); e.pop_back(); }
    };
    rec(maxTok);
    fclose(f);
    qInstallMessageHandler(nullptr);
}


// ------------------------------------------------------------ expressions given as QRegularExpression objects, with pattern options
// "passes iff the expression matches the message text": the expression is the object the user handed over, options included.
// Every pattern <= maxTok tokens over an alphabet with blanks, '#', a letter in both cases, '.', '$' and a newline x every option
// set below x every text; the oracle is the user's own expression object applied to the text.
void regexOptions(int maxTok, int shard, int nshards, vx::Summary &sum)
{
    long long patNo = 0;
    const char *TOK[] = { "a", "B", " ", "#", ".", "$", "^", "\n", "b*", "(a)", "\\1", "\\w" };
    const int NT = 12;
    typedef QRegularExpression::PatternOption O;
    const QRegularExpression::PatternOptions OPTS[] = {
        QRegularExpression::NoPatternOption, O::CaseInsensitiveOption, O::DotMatchesEverythingOption, O::MultilineOption, O::ExtendedPatternSyntaxOption,
        O::InvertedGreedinessOption, O::DontCaptureOption, O::UseUnicodePropertiesOption,
        O::CaseInsensitiveOption | O::ExtendedPatternSyntaxOption, O::MultilineOption | O::DotMatchesEverythingOption, O::ExtendedPatternSyntaxOption | O::MultilineOption };
    const char *ON[] = { "none", "i", "s", "m", "x", "U", "nocapture", "ucp", "ix", "ms", "xm" };
    const int NO = 11;
    std::vector<QString> texts;
    { const char *SY[] = { "a", "A", "b", " ", "#", "\n" }; std::vector<QString> cur { QStringLiteral("") }; texts = cur;
      for (int l = 1; l <= 3; l++) { std::vector<QString> nx; for (auto &x : cur) for (auto c : SY) nx.push_back(x + c); texts.insert(texts.end(), nx.begin(), nx.end()); cur = nx; } }
    texts.push_back(QString(QChar(0xe9))); texts.push_back(QStringLiteral("a b")); texts.push_back(QStringLiteral("ab # x"));
    qInstallMessageHandler([](QtMsgType, const QMessageLogContext &, const QString &) {});
    std::vector<int> e;
    static QMessageLogContext ctx("f", 1, "fn", "c");
    std::function<void(int)> rec = [&](int left) {
        if (!e.empty() && (patNo++ % nshards) == shard) {
            QString re; for (int t : e) re += TOK[t];
            for (int oi = 0; oi < NO; oi++) {
                QRegularExpression user(re, OPTS[oi]);
                RegExpFilter flt(user);
                std::string line = re.toStdString() + "/" + ON[oi] + ":";
                for (auto &t : texts) {
                    LogMessage m(QtDebugMsg, ctx, t);
                    bool verdict = flt.filter(m), expect = user.match(t).hasMatch();
                    line += verdict ? '1' : '0';
                    sum.counters["regex_option_cases"]++;
                    if (verdict != expect)
                        sum.violate(std::string("regex-options:") + ON[oi], "RegExpFilter(QRegularExpression(" + vx::jstr(re) + ", options " + ON[oi] + ")) " + (verdict ? "passes" : "drops") + " the text " + vx::jstr(t) + " although the expression " + (expect ? "matches" : "does not match") + " it",
                                    "{\"kind\":\"c16-regex-options\",\"regex\":" + vx::jstr(re) + ",\"options\":" + vx::jstr(ON[oi]) + ",\"text\":" + vx::jstr(t) + "}");
                }
                sum.digestAdd(line);
            }
        }
        if (!left) return;
        for (int t = 0; t < NT; t++) { e.push_back(t); rec(left - 1); e.pop_back(); }
    };
    rec(maxTok);
    qInstallMessageHandler(nullptr);
}

// ------------------------------------------------------------ long runs: counters and run lengths around the widths of small integers
// A run of n identical messages (n around 2^8 and 2^16, and one beyond 2^17), then a different text, then the run's text again: the
// duplicate filter passes exactly the first message of every run, the sequence counter numbers every message it sees. One instance
// of each for the whole family, so that the counter also crosses 2^16 and 2^17 several times.
void longRuns(vx::Summary &sum)
{
    DuplicateFilter dup; SeqNumberAttr seq;
    static QMessageLogContext ctx("f", 1, "fn", "c");
    QString last = QStringLiteral(""); long long n = 0;
    auto feed = [&](const QString &t, const char *what, long long pos) {
        LogMessage m(QtDebugMsg, ctx, t);
        long long got = seq.attributes(m).value(QStringLiteral("seq_number")).toLongLong();
        bool pass = dup.filter(m), expect = !(t == last);
        if (expect) last = t;
        sum.counters["long_run_messages"]++;
        if (got != n) sum.violate("long-run:seq", std::string("message number ") + std::to_string(n) + " of the long-run family gets seq_number " + std::to_string(got), "{\"kind\":\"c16-long-run\",\"at\":" + std::to_string(n) + "}");
        if (pass != expect) sum.violate("long-run:dup", std::string("run ") + what + ", position " + std::to_string(pos) + " of the run: the duplicate filter " + (pass ? "passes a message equal to its predecessor" : "drops a message that differs from its predecessor"), "{\"kind\":\"c16-long-run\",\"run\":" + vx::jstr(what) + ",\"position\":" + std::to_string(pos) + "}");
        n++;
    };
    const long long RUNS[] = { 254, 255, 256, 257, 65534, 65535, 65536, 65537, 65538, 131073 };
    for (long long r : RUNS) {
        std::string w = std::to_string(r) + " x 'same'";
        for (long long i = 0; i < r; i++) feed(QStringLiteral("same"), w.c_str(), i);
        feed(QStringLiteral("other"), w.c_str(), r);
        feed(QStringLiteral("other"), w.c_str(), r + 1);
    }
    // a run of EMPTY texts right from the start (the filter's initial "previous text" is the empty one)
    { DuplicateFilter d2; for (long long i = 0; i < 65538; i++) { LogMessage m(QtDebugMsg, ctx, i % 2 ? QString() : QStringLiteral("")); sum.counters["long_run_messages"]++;
        if (d2.filter(m)) { sum.violate("long-run:dup", "initial run of empty texts, position " + std::to_string(i) + ": passed", "{\"kind\":\"c16-long-run\",\"run\":\"empty\",\"position\":" + std::to_string(i) + "}"); break; } } }
    sum.digestAdd("longruns:" + std::to_string(n));
}

} // namespace

int main(int argc, char **argv)
{
    TEXTS[0] = QString(); TEXTS[1] = QStringLiteral(""); TEXTS[2] = QStringLiteral("a"); TEXTS[3] = QStringLiteral("A");
    TEXTS[4] = QStringLiteral("a "); TEXTS[5] = QString(QChar(0xe9)); TEXTS[6] = QString(QChar('e')) + QChar(0x301);
    TEXTS[7] = QStringLiteral("Aa"); TEXTS[8] = QStringLiteral("BB");
    int depth = vx::argInt(argc, argv, "--depth", 4);
    const char *rx = vx::argStr(argc, argv, "--regex-out", nullptr);
    vx::Summary sum;
    sum.bound = "message sequences <= " + std::to_string(depth) + " over 9 texts x 5 types x 2 pipelines (90 messages)";
    if (rx) regexDump(rx, vx::argInt(argc, argv, "--regex-tokens", 3), vx::argInt(argc, argv, "--regex-len", 3), sum);

    if (int rot = vx::argInt(argc, argv, "--regex-options-tokens", 0)) regexOptions(rot, vx::argInt(argc, argv, "--shard", 0), vx::argInt(argc, argv, "--nshards", 1), sum);
    if (vx::argInt(argc, argv, "--long-runs", 0)) longRuns(sum);

    std::set<std::string> seen;
    std::vector<std::vector<Msg>> frontier { {} };
    seen.insert(runHistory({}, nullptr, nullptr));
    sum.states = 1;
    for (int d = 1; d <= depth; d++) {
        std::vector<std::vector<Msg>> next;
        for (auto &h : frontier)
            for (int t = 0; t < NTEXT; t++) for (int ty = 0; ty < 5; ty++) for (int p = 0; p < 2; p++) {
                auto h2 = h; h2.push_back({ t, ty, p });
                bool bad = false;
                std::string c = runHistory(h2, &sum, &bad);
                sum.cases++;
                if (bad) continue;
                if (seen.insert(c).second) {
                    if (runHistory(h2, nullptr, nullptr) != c) { fprintf(stderr, "ENGINE: canon diverged on replay\n"); return 3; }
                    sum.replays_ok++;
                    sum.states++;
                    next.push_back(h2);
                    if (d >= 2) sum.sample("{\"history\":" + hshow(h2) + ",\"state\":" + vx::jstr(c) + "}");
                }
            }
        frontier.swap(next);
    }
    // plain exhaustive enumeration without state merging (guards against hidden state the 1-step probes cannot see)
    int nd = vx::argInt(argc, argv, "--nodedup-depth", 0);
    int shard = vx::argInt(argc, argv, "--shard", 0), nshards = vx::argInt(argc, argv, "--nshards", 1);
    if (nd > 0) {
        std::vector<Msg> h;
        long long idx = 0;
        std::function<void(int)> rec = [&](int left) {
            if (!h.empty()) { bool bad; runHistory(h, &sum, &bad); sum.cases++; sum.counters["nodedup_sequences"]++; }
            if (!left) return;
            for (int t = 0; t < NTEXT; t++) for (int ty = 0; ty < 5; ty++) for (int p = 0; p < 2; p++) {
                if (h.empty() && (idx++ % nshards) != shard) continue;
                h.push_back({ t, ty, p }); rec(left - 1); h.pop_back();
            }
        };
        rec(nd);
    }
    sum.print();
    return 0;
}
