// C20 (build-option space): behaviours that depend on a build option of the library, observed on both distributions.
// The explorer is built four times: against src/ and against the single header, each with and without -DQTLOGGER_NO_THREAD; the
// digests of a pair built with the same option must be equal. What is observed here is what the option changes or what lives next
// to code the option removes: delivery of SignalSink::message over direct and queued connections (the queued one needs the
// LogMessage meta type, which some translation unit has to register), copies of a message, the attributes a message starts with.
// usage: c20cfg [--len N]
#include "common.h"
#include "vx_qtlogger.h"
#include <QCoreApplication>

using namespace QtLogger;

namespace {

const QtMsgType TYPES[3] = { QtDebugMsg, QtWarningMsg, QtCriticalMsg };
const char *TEXTS[3] = { "", "a", "b c" };
vx::Summary sum;

std::string show(const LogMessage &m)
{
    return std::to_string(int(m.type())) + ":" + m.message().toStdString() + ":" + (m.category() ? m.category() : "(null)") + ":" + std::to_string(m.line()) + ":" +
            (m.isFormatted() ? m.formattedMessage().toStdString() : std::string("-")) + ":" + std::to_string(m.attributes().size());
}

void signalCases(int len, bool queued, const char *phase)
{
    std::vector<int> seq;
    std::function<void(int)> rec = [&](int left) {
        if (!seq.empty()) {
            QObject ctx;
            std::string got;
            auto sink = SignalSinkPtr::create();
            QObject::connect(sink.data(), &SignalSink::message, &ctx, [&got](const QtLogger::LogMessage &m) { got += show(m) + ";"; }, queued ? Qt::QueuedConnection : Qt::DirectConnection);
            Pipeline p;
            p.append(sink);
            std::string in;
            for (int x : seq) {
                QMessageLogContext c("f.cpp", 3, "fn", "cat");
                LogMessage m(TYPES[x % 3], c, QString::fromLatin1(TEXTS[x / 3]));
                m.setAttribute(QStringLiteral("k"), x);
                p.process(m);
                in += std::to_string(x) + ",";
            }
            QCoreApplication::processEvents();
            QCoreApplication::sendPostedEvents();
            sum.digestAdd(std::string(phase) + (queued ? "|queued|" : "|direct|") + in + "=>" + got);
            sum.outcomes.insert(got.substr(0, 40));
            sum.cases++; sum.transitions += (long long)seq.size();
            sum.counters[got.empty() ? "nothing_delivered" : "delivered"]++;
        }
        if (!left) return;
        for (int x = 0; x < 9; x++) { seq.push_back(x); rec(left - 1); seq.pop_back(); }
    };
    rec(len);
}

void copyCases()
{
    for (int x = 0; x < 9; x++) {
        QMessageLogContext c("f.cpp", 3, "fn", x % 2 ? "cat" : nullptr);
        LogMessage m(TYPES[x % 3], c, QString::fromLatin1(TEXTS[x / 3]));
        LogMessage a(m);
        a.setFormattedMessage(QStringLiteral("F"));
        LogMessage b(a);
        sum.digestAdd("copy|" + std::to_string(x) + "=>" + show(m) + "|" + show(a) + "|" + show(b) + "|" + (m.time() == b.time() ? "t" : "T"));
        sum.cases++;
    }
}

} // namespace

int main(int argc, char **argv)
{
    QCoreApplication app(argc, argv);
    qInstallMessageHandler([](QtMsgType, const QMessageLogContext &, const QString &) {});   // "Cannot queue arguments of type ..." goes here
    int len = vx::argInt(argc, argv, "--len", 2);
    // phase 1: nothing of the library has been constructed yet except what static initialisation did
    signalCases(len, false, "fresh");
    signalCases(len, true, "fresh");
    copyCases();
    // phase 2: after a Logger-like object exists (in builds with threading support its constructor registers the message type)
    {
#ifndef QTLOGGER_NO_THREAD
        OwnThreadHandler<Pipeline> h;
#else
        Pipeline h;
#endif
        (void)h;
        signalCases(len, false, "after-handler");
        signalCases(len, true, "after-handler");
    }
    sum.states = sum.cases;
    sum.bound = "SignalSink over direct and queued connections, message sequences <= " + std::to_string(len) + " over 9 messages, before and after a handler object exists; message copies";
    sum.print();
    return 0;
}
