// C13 / C18: bounded-exhaustive input enumeration for the JSON and Sentry formatters.
// The real formatter is run on every enumerated message; each case is streamed to the Python oracle
// (checks/jsonoracle.py) as   C \t <meta json> \t <hex of the formatter's output in UTF-8>
// where <meta json> holds the EXPECTATION built from the inputs by a 10-line ASCII-only JSON writer
// (vx::jesc: everything outside 0x20..0x7e is \uXXXX per UTF-16 code unit), never from Qt's JSON code.
// Python's json module is the independent parser/judge. The last line is the usual summary object.
#include "common.h"
#include "../vfs/vdev.h"   // virtual wall clock (gettimeofday / clock_gettime defined in this executable)
#include "vx_qtlogger.h"
#include <climits>

using namespace QtLogger;

namespace {

const QtMsgType TYPES[5] = { QtDebugMsg, QtInfoMsg, QtWarningMsg, QtCriticalMsg, QtFatalMsg };
const char *TYN[5] = { "debug", "info", "warning", "critical", "fatal" };

std::vector<QString> SYM;   // the symbol alphabet (one entry = one code point)
void initSym()
{
    for (int c = 0; c < 0x20; c++) SYM.push_back(QString(QChar(c)));
    const uint more[] = { '"', '\\', '/', 'a', 0x7f, 0x80, 0x85, 0xe9, 0x2028, 0x2029, 0xfffd, 0xffff, 0x10000, 0x1f600 };
    for (uint c : more) SYM.push_back(QString::fromUcs4(&c, 1));
}

// ---- expectation values: a QVariant together with its JSON text written by *this* file
struct Val { QVariant v; std::string j; };
Val S(const QString &s) { return { QVariant(s), vx::jstr(s) }; }
Val I(int n) { return { QVariant(n), std::to_string(n) }; }
Val U(uint n) { return { QVariant(n), std::to_string(n) }; }
Val LL(qlonglong n) { return { QVariant(n), std::to_string(n) }; }
Val ULL(qulonglong n) { return { QVariant(n), std::to_string(n) }; }
Val D(double d, const char *lit) { return { QVariant(d), lit }; }
Val B(bool b) { return { QVariant(b), b ? "true" : "false" }; }
Val L(const std::vector<Val> &xs)
{
    QVariantList l; std::string j = "[";
    for (size_t i = 0; i < xs.size(); i++) { l.append(xs[i].v); j += (i ? "," : "") + xs[i].j; }
    return { QVariant(l), j + "]" };
}
Val M(const std::vector<std::pair<QString, Val>> &xs)
{
    QVariantMap m; std::string j = "{";
    for (size_t i = 0; i < xs.size(); i++) { m.insert(xs[i].first, xs[i].second.v); j += (i ? "," : "") + vx::jstr(xs[i].first) + ":" + xs[i].second.j; }
    return { QVariant(m), j + "}" };
}
Val H(const std::vector<std::pair<QString, Val>> &xs)
{
    QVariantHash m; std::string j = "{";
    for (size_t i = 0; i < xs.size(); i++) { m.insert(xs[i].first, xs[i].second.v); j += (i ? "," : "") + vx::jstr(xs[i].first) + ":" + xs[i].second.j; }
    return { QVariant(m), j + "}" };
}
Val SL(const QStringList &l)
{
    std::string j = "[";
    for (int i = 0; i < l.size(); i++) j += (i ? "," : "") + vx::jstr(l[i]);
    return { QVariant(l), j + "]" };
}

std::vector<Val> typedValues()
{
    const qlonglong P53 = 9007199254740992LL;
    return {
        I(0), I(1), I(-1), I(INT_MAX), I(INT_MIN), U(0u), U(4294967295u),
        LL(2147483648LL), LL(-2147483649LL), LL(P53), LL(-P53), LL(P53 - 1), LL(-(P53 - 1)), ULL(qulonglong(P53)), ULL(4294967296ULL),
        D(0.5, "0.5"), D(-0.5, "-0.5"), D(0.0, "0"), D(1e15, "1000000000000000"), D(-2.5e-7, "-2.5e-7"), D(1e300, "1e300"), D(123456789.125, "123456789.125"),
        B(true), B(false),
        L({}), L({ I(1), S(QStringLiteral("a")), B(true), D(0.5, "0.5") }), L({ L({ I(1) }), M({ { QStringLiteral("k"), S(QStringLiteral("\"\n")) } }) }),
        M({}), M({ { QStringLiteral("a"), I(1) }, { QStringLiteral("b\"\\\n"), S(QString::fromUtf8("\xf0\x9f\x98\x80\x01")) } }),
        M({ { QStringLiteral("in"), M({ { QStringLiteral("l"), L({ B(false), I(-7) }) } }) }, { QStringLiteral(""), S(QStringLiteral("")) } }),
        H({ { QStringLiteral("h"), LL(P53) } }),
        SL({}), SL({ QStringLiteral("x"), QStringLiteral(""), QString(QChar(0x2028)), QStringLiteral("\r\n") }),
        S(QStringLiteral("")), S(QStringLiteral("plain")),
        // values that compare equal under QVariant's converting == but are different JSON values
        S(QStringLiteral("1")), S(QStringLiteral("01")), S(QStringLiteral("0")), S(QStringLiteral("true")), S(QStringLiteral("false")), S(QStringLiteral("0.5")), D(1.0, "1"), LL(1), LL(0),
        L({ S(QStringLiteral("1")), S(QStringLiteral("2")) }), L({ I(1), I(2) }), SL({ QStringLiteral("1"), QStringLiteral("2") }), M({ { QStringLiteral("k"), S(QStringLiteral("1")) } }), M({ { QStringLiteral("k"), I(1) } }),
    };
}

struct Case {
    QString msg; int type = 0;
    const char *file = "f.cpp", *function = "fn()", *category = "cat"; int line = 7;
    std::vector<std::pair<QString, Val>> attrs;
    qint64 timeMs = 1704067200123LL;
    std::string desc;
    QString preFmt;      // non-null: a formatter upstream has already given the message a formatted text
    SentryFormatter *fmt = nullptr;   // a formatter constructed with other arguments than the defaults
    bool reuseBuffers = false;        // file / function / category are handed over in the SAME caller-owned buffers for every message (new contents each time)
};

std::string hex(const QByteArray &b) { return b.toHex().toStdString(); }
std::string cstrJ(const char *s) { return s ? vx::jstr(QString::fromLatin1(s)) : std::string("null"); }

long long g_idx = 0; int g_shard = 0, g_nshards = 1;
vx::Summary sum;
JsonFormatter *fCompact, *fIndent; SentryFormatter *fSentry;
Formatter *g_fmtOverride = nullptr;   // family H: a formatter obtained through one of the library's front-ends

std::string metaCommon(const Case &c)
{
    std::string m = "\"desc\":" + vx::jstr(c.desc) + ",\"message\":" + vx::jstr(c.msg) + ",\"type\":\"" + TYN[c.type] + "\"";
    m += ",\"file\":" + cstrJ(c.file) + ",\"function\":" + cstrJ(c.function) + ",\"category\":" + cstrJ(c.category);
    m += ",\"line\":" + std::to_string(c.line) + ",\"time_ms\":" + std::to_string(c.timeMs) + ",\"attrs\":{";
    for (size_t i = 0; i < c.attrs.size(); i++) m += (i ? "," : "") + vx::jstr(c.attrs[i].first) + ":" + c.attrs[i].second.j;
    return m + "}";
}

bool g_force = false;   // inside runSeq: the shard decision was taken for the whole sequence
void run(const Case &c, const char *mode)   // mode: "jc" "ji" "s"
{
    if (!g_force && (g_idx++ % g_nshards) != g_shard) return;
    vdev::nowMs = c.timeMs;
    static char bufFile[256], bufFunc[256], bufCat[256];
    const char *file = c.file, *function = c.function, *category = c.category;
    if (c.reuseBuffers) {
        if (file) { snprintf(bufFile, sizeof bufFile, "%s", file); file = bufFile; }
        if (function) { snprintf(bufFunc, sizeof bufFunc, "%s", function); function = bufFunc; }
        if (category) { snprintf(bufCat, sizeof bufCat, "%s", category); category = bufCat; }
    }
    QMessageLogContext ctx(file, c.line, function, category);
    LogMessage m(TYPES[c.type], ctx, c.msg);
    for (auto &a : c.attrs) m.setAttribute(a.first, a.second.v);
    if (!c.preFmt.isNull()) m.setFormattedMessage(c.preFmt);
    // the message is formatted LATER than it was created (it waited in the queue of the logger thread): 2.5 s, across a minute and across
    // midnight for every third case. Whatever the formatter reports as the time of the event is the message's time, not the clock's
    vdev::nowMs = c.timeMs + ((sum.cases % 3) == 0 ? 2500 : (sum.cases % 3) == 1 ? 61000 : 86400000LL + 1500);
    QString out = g_fmtOverride ? g_fmtOverride->format(m) : mode[0] == 's' ? (c.fmt ? c.fmt : fSentry)->format(m) : (mode[1] == 'c' ? fCompact : fIndent)->format(m);
    sum.cases++; sum.transitions++;
    sum.counters[std::string("cases_") + mode]++;
    QByteArray u = out.toUtf8();
    if (QString::fromUtf8(u) != out) sum.counters["output_not_roundtripping_utf8"]++;
    {   // digest for the dual build of C20: the output without the fields that differ from process to process
        static const QRegularExpression vol(QStringLiteral("\"(event_id|threadId|thread_id)\":\\s*(\"[^\"]*\"|[0-9.e+]+)"));
        QString n = out; n.replace(vol, QStringLiteral("\"\\1\":0"));
        sum.digestAdd(std::string(mode) + "|" + c.desc + "|" + vx::jesc(c.msg) + "=>" + n.toStdString());
    }
    printf("C\t{\"mode\":\"%s\",%s}\t%s\n", mode, metaCommon(c).c_str(), hex(u).c_str());
}

// consecutive messages through the SAME formatter instance (a formatter is shared by every message of a pipeline): all of one
// sequence run in one shard, back to back, each judged on its own
void runSeq(const std::vector<Case> &cs, const char *mode)
{
    if ((g_idx++ % g_nshards) != g_shard) return;
    g_force = true;
    for (auto &c : cs) run(c, mode);
    g_force = false;
}

template <class F> void forStrings(int maxLen, F f)   // all strings of <= maxLen symbols, shortest first
{
    std::vector<int> e;
    f(QString(), 0);
    std::vector<QString> cur { QString() };
    long long n = 1;
    for (int l = 1; l <= maxLen; l++) {
        std::vector<QString> nx; nx.reserve(cur.size() * SYM.size());
        for (auto &s : cur) for (auto &y : SYM) { nx.push_back(s + y); f(nx.back(), n++); }
        cur.swap(nx);
    }
    sum.states += n;
}

const char *SRC[] = { nullptr, "", "a.cpp", "/p/q\"uo'te\\back/slash.cpp", " ~!@#$%^&*()[]{}<>;:,.?|`=+-_0" };
const char *NAMES[] = { "", "Type", "message ", " message", "msg", "time2", "thread_id", "threadid", "Line", "k.k", "k k", "0", "__proto__", "file\n", "\"", "\\", "category\t" };

void jsonSpace(int len)
{
    const char *modes[2] = { "jc", "ji" };
    for (const char *mode : modes) {
        // A: every string in each position
        forStrings(len, [&](const QString &s, long long i) {
            Case c; c.type = int(i % 5);
            if (s.size() <= 2 * 2 || true) {
                c.desc = "string as message"; c.msg = s; run(c, mode);
                Case d; d.type = int((i + 1) % 5); d.desc = "string as attribute value"; d.msg = QStringLiteral("m"); d.attrs.push_back({ QStringLiteral("k"), S(s) }); run(d, mode);
                Case e; e.type = int((i + 2) % 5); e.desc = "string as attribute name"; e.msg = QStringLiteral("m"); e.attrs.push_back({ s, S(QStringLiteral("v")) }); run(e, mode);
            }
        });
        // A': strings <= 1 in all three positions at once, all types
        forStrings(1, [&](const QString &s, long long) {
            forStrings(1, [&](const QString &t, long long) {
                for (int ty = 0; ty < 5; ty++) {
                    Case c; c.type = ty; c.desc = "message x attribute value x all types"; c.msg = s; c.attrs.push_back({ QStringLiteral("k"), S(t) }); c.attrs.push_back({ t + QStringLiteral("n"), S(s) });
                    run(c, mode);
                }
            });
        });
        // B: typed values alone and in ordered pairs, nested once more
        auto tv = typedValues();
        for (size_t i = 0; i < tv.size(); i++) {
            Case c; c.type = int(i % 5); c.desc = "typed attribute value"; c.msg = QStringLiteral("m"); c.attrs.push_back({ QStringLiteral("n"), tv[i] }); run(c, mode);
            Case w; w.type = int(i % 5); w.desc = "typed value inside list inside map"; w.msg = QStringLiteral("m"); w.attrs.push_back({ QStringLiteral("w"), M({ { QStringLiteral("l"), L({ tv[i], tv[(i + 1) % tv.size()] }) } }) }); run(w, mode);
            for (size_t j = 0; j < tv.size(); j++) {
                Case p; p.type = int(j % 5); p.desc = "two typed attributes"; p.msg = QStringLiteral("m"); p.attrs.push_back({ QStringLiteral("n1"), tv[i] }); p.attrs.push_back({ QStringLiteral("n2"), tv[j] }); run(p, mode);
            }
        }
        // C: source location strings (null / empty / printable ASCII) x line x type
        const int lines[] = { 0, 1, -1, INT_MAX };
        for (auto f : SRC) for (auto fn : SRC) for (auto cat : SRC) for (int ln : lines) {
            static int ty = 0;
            Case c; c.type = (ty++) % 5; c.desc = "source location"; c.msg = QStringLiteral("m"); c.file = f; c.function = fn; c.category = cat; c.line = ln; run(c, mode);
        }
        // D: attribute names that resemble but do not shadow built-ins, with every typed value
        for (auto n : NAMES) for (size_t i = 0; i < tv.size(); i++) {
            Case c; c.type = int(i % 5); c.desc = "near-miss attribute name"; c.msg = QStringLiteral("m"); c.attrs.push_back({ QString::fromUtf8(n), tv[i] }); run(c, mode);
        }
        // F: every ordered pair of typed values as CONSECUTIVE messages with the same attribute name (and the first one repeated after)
        for (size_t i = 0; i < tv.size(); i++) for (size_t j = 0; j < tv.size(); j++) {
            Case a; a.desc = "consecutive messages, same attribute name (1st)"; a.msg = QStringLiteral("m1"); a.attrs.push_back({ QStringLiteral("n"), tv[i] });
            Case b; b.desc = "consecutive messages, same attribute name (2nd)"; b.msg = QStringLiteral("m2"); b.type = int(j % 5); b.attrs.push_back({ QStringLiteral("n"), tv[j] });
            Case c2 = a; c2.desc = "consecutive messages, same attribute name (3rd = 1st again)"; c2.msg = QStringLiteral("m3");
            runSeq({ a, b, c2 }, mode);
        }
        // F': consecutive messages whose source-location strings arrive in the same caller-owned buffers (same addresses, new contents)
        for (auto f1 : SRC) for (auto f2 : SRC) {
            if (!f1 || !f2 || f1 == f2) continue;
            std::vector<Case> seq;
            const char *order[3] = { f1, f2, f1 };
            for (int k = 0; k < 3; k++) { Case c; c.desc = "consecutive messages, source-location strings in reused buffers"; c.msg = QStringLiteral("m%1").arg(k); c.type = k; c.file = order[k]; c.function = order[(k + 1) % 3]; c.category = order[(k + 2) % 3]; c.reuseBuffers = true; seq.push_back(c); }
            runSeq(seq, mode);
        }
        // G: the message already carries a formatted text (a formatter ran upstream): the JSON still reports the message text
        forStrings(1, [&](const QString &s, long long i) {
            Case c; c.type = int(i % 5); c.desc = "message with formatted text set upstream"; c.msg = s; c.preFmt = QStringLiteral("F<") + s + QStringLiteral(">");
            c.attrs.push_back({ QStringLiteral("k"), S(s) }); run(c, mode);
            Case d = c; d.preFmt = QStringLiteral(""); d.desc = "message with EMPTY formatted text set upstream"; run(d, mode);
        });
        // E: many attributes at once
        { Case c; c.desc = "40 attributes"; c.msg = QStringLiteral("m"); for (int i = 0; i < 40; i++) c.attrs.push_back({ QStringLiteral("a%1").arg(i) + SYM[i % SYM.size()], tv[i % tv.size()] }); run(c, mode); }
    }
}


// H: JSON formatters the way applications obtain them - SimplePipeline::formatToJson(compact), JsonFormatter::instance(), the
// constructor - requested in this process in an order that depends on the shard (statics are per process, so the 16 shards cover all
// six orders of first use); every front-end must give the mode it was asked for whatever was requested before. Run in EVERY shard.
void frontEnds()
{
    struct FE { const char *name; const char *mode; std::function<QSharedPointer<Formatter>()> get; };
    std::vector<std::pair<QSharedPointer<SimplePipeline>, int>> keep;
    auto viaPipeline = [&](bool compact) { auto sp = QSharedPointer<SimplePipeline>::create(); sp->formatToJson(compact); keep.push_back({ sp, 0 }); return std::as_const(*sp).handlers().last().dynamicCast<Formatter>(); };
    std::vector<FE> fe = {
        { "SimplePipeline::formatToJson(true)", "jc", [&] { return viaPipeline(true); } },
        { "SimplePipeline::formatToJson(false)", "ji", [&] { return viaPipeline(false); } },
        { "JsonFormatter::instance()", "ji", [] { return JsonFormatter::instance().staticCast<Formatter>(); } },
    };
    std::vector<int> order = { 0, 1, 2 };
    for (int k = 0; k < g_shard % 6; k++) std::next_permutation(order.begin(), order.end());
    std::vector<QSharedPointer<Formatter>> got(3);
    for (int i : order) got[i] = fe[i].get();
    // ... and once more after all of them exist
    std::vector<QSharedPointer<Formatter>> again(3);
    for (int i : order) again[i] = fe[i].get();
    std::string ord; for (int i : order) ord += std::to_string(i);
    g_force = true;
    for (int round = 0; round < 2; round++) for (int i = 0; i < 3; i++) {
        auto f = round ? again[i] : got[i];
        if (!f) { fprintf(stderr, "ENGINE: front-end %s gave no formatter\n", fe[i].name); exit(3); }
        g_fmtOverride = f.data();
        forStrings(1, [&](const QString &x, long long n) {
            Case c; c.type = int(n % 5); c.desc = std::string("formatter from ") + fe[i].name + (round ? " (second request)" : "") + ", order of first use " + ord; c.msg = x;
            c.attrs.push_back({ QStringLiteral("k"), S(x) }); c.attrs.push_back({ QStringLiteral("m"), M({ { QStringLiteral("a"), I(1) }, { QStringLiteral("b"), L({ I(1), S(x) }) } }) });
            run(c, fe[i].mode);
        });
        g_fmtOverride = nullptr;
    }
    g_force = false;
    sum.counters["front_end_order_" + ord]++;
}

const char *ROUTED[8] = { "appname", "appversion", "os_name", "os_version", "kernel_version", "build_abi", "cpu_arch", "host_name" };

void sentrySpace(int len)
{
    const char *CATS[] = { nullptr, "", "default", "net", "Default", "default.x", " default" };
    const char *FNS[] = { nullptr, "", "void f()", "q\"\\" };
    // A: every string as the message
    forStrings(len, [&](const QString &s, long long i) {
        Case c; c.type = int(i % 5); c.category = CATS[i % 7]; c.desc = "string as message"; c.msg = s; run(c, "s");
        if (s.size() <= 4) { Case d; d.type = int((i + 1) % 5); d.desc = "string as extra attribute value"; d.msg = QStringLiteral("m"); d.attrs.push_back({ QStringLiteral("k"), S(s) }); run(d, "s");
                             Case e; e.type = int((i + 2) % 5); e.desc = "string as routed attribute value"; e.msg = QStringLiteral("m"); e.attrs.push_back({ QString::fromLatin1(ROUTED[i % 8]), S(s) }); run(e, "s"); }
    });
    // A'': the message already carries a formatted text; consecutive events with differing routed attribute sets through one formatter
    forStrings(1, [&](const QString &s, long long i) {
        Case c; c.type = int(i % 5); c.desc = "message with formatted text set upstream"; c.msg = s; c.preFmt = QStringLiteral("F<") + s + QStringLiteral(">"); run(c, "s");
        Case d = c; d.msg = QStringLiteral("x").repeated(120) + s; d.desc = "long message with formatted text set upstream"; run(d, "s");
    });
    for (int m1 = 0; m1 < 256; m1 += 5) for (int m2 = 0; m2 < 256; m2 += 7) {
        std::vector<Case> seq;
        for (int mask : { m1, m2, 0, m1 }) {
            Case c; c.desc = "consecutive events with differing routed attributes"; c.msg = QStringLiteral("m"); c.type = mask % 5;
            for (int b = 0; b < 8; b++) if (mask & (1 << b)) c.attrs.push_back({ QString::fromLatin1(ROUTED[b]), S(QStringLiteral("v%1_%2").arg(b).arg(mask)) });
            seq.push_back(c);
        }
        runSeq(seq, "s");
    }
    for (auto f1 : SRC) for (auto f2 : SRC) {
        if (!f1 || !f2 || f1 == f2) continue;
        std::vector<Case> seq;
        const char *order[3] = { f1, f2, f1 };
        for (int k = 0; k < 3; k++) { Case c; c.desc = "consecutive events, source-location strings in reused buffers"; c.msg = QStringLiteral("m%1").arg(k); c.type = k; c.file = order[k]; c.function = order[(k + 1) % 3]; c.category = order[(k + 2) % 3]; c.reuseBuffers = true; seq.push_back(c); }
        runSeq(seq, "s");
    }
    // custom attributes named like the built-in entries under extra: the attribute is the one that must arrive
    for (auto n : { "line", "file", "thread_id" }) for (size_t i = 0; i < 6; i++) {
        auto tvs = typedValues();
        Case c; c.desc = "custom attribute named like a built-in extra entry"; c.msg = QStringLiteral("m"); c.type = int(i % 5); c.attrs.push_back({ QString::fromLatin1(n), tvs[i * 5 % tvs.size()] });
        if (i % 2) c.file = nullptr;
        run(c, "s");
    }
    // B: categories x types x function x file
    for (auto cat : CATS) for (int ty = 0; ty < 5; ty++) for (auto fn : FNS) for (auto f : SRC) {
        Case c; c.type = ty; c.category = cat; c.function = fn; c.file = f; c.line = (ty * 7) - 3; c.desc = "category x type x function x file"; c.msg = QStringLiteral("hello"); run(c, "s");
    }
    // C: every subset of the eight specially routed names x every subset of two arbitrary names
    auto tv = typedValues();
    const QString vals[] = { QStringLiteral("v"), QStringLiteral(""), QStringLiteral("a\"b\\c\n"), QString::fromUtf8("\xf0\x9f\x98\x80"), QStringLiteral("1.0.0"), QStringLiteral("linux"), QString(QChar(0x2028)), QStringLiteral("x y") };
    for (int mask = 0; mask < 256; mask++) for (int ex = 0; ex < 4; ex++) {
        Case c; c.type = mask % 5; c.desc = "routed attribute subset"; c.msg = QStringLiteral("m");
        for (int b = 0; b < 8; b++) if (mask & (1 << b)) c.attrs.push_back({ QString::fromLatin1(ROUTED[b]), S(vals[(b + mask) % 8]) });
        if (ex & 1) c.attrs.push_back({ QStringLiteral("user"), tv[mask % tv.size()] });
        if (ex & 2) c.attrs.push_back({ QStringLiteral("app_name"), tv[(mask + 5) % tv.size()] });   // resembles a slot name, is an ordinary attribute
        run(c, "s");
    }
    // C': arbitrary names / typed values
    for (auto n : NAMES) for (size_t i = 0; i < tv.size(); i++) {
        Case c; c.type = int(i % 5); c.desc = "arbitrary attribute name x typed value"; c.msg = QStringLiteral("m"); c.attrs.push_back({ QString::fromUtf8(n), tv[i] }); run(c, "s");
    }
    // D: the 100-character cut: lengths 95..105 built from BMP units with one astral / combining symbol at every position
    const uint astral = 0x1f600;
    const QString fillers[] = { QStringLiteral("x"), QString(QChar(0xe9)), QString(QChar(0x2028)) };
    for (auto &fill : fillers) for (int total = 95; total <= 105; total++) {
        { Case c; c.desc = "length family (BMP only)"; c.type = total % 5; c.msg = fill.repeated(total); run(c, "s"); }
        for (int pos = 90; pos < total && pos <= 102; pos++) {
            Case c; c.desc = "length family (astral symbol at position)"; c.type = pos % 5;
            c.msg = fill.repeated(pos) + QString::fromUcs4(&astral, 1) + fill.repeated(std::max(0, total - pos - 2)); run(c, "s");
        }
    }
    for (int n : { 1000, 65536 }) { Case c; c.desc = "long message"; c.msg = QStringLiteral("ab").repeated(n / 2); run(c, "s"); }
    // E: clock values around second / minute / day / year boundaries (the zone comes from TZ, set per shard by the driver)
    const qint64 bases[] = { 1704067200000LL /*2024-01-01T00:00:00Z*/, 1709251200000LL /*2024-03-01*/, 1711846800000LL /*2024-03-31T01:00Z DST switch in Europe*/, 0LL, 951782400000LL /*2000-02-29*/, 4102444800000LL /*2100-01-01*/ };
    for (qint64 b : bases) for (qint64 off : { -1001LL, -1000LL, -999LL, -1LL, 0LL, 1LL, 499LL, 500LL, 999LL, 1000LL, 59999LL, 86399999LL }) {
        if (b + off < 0) continue;
        Case c; c.desc = "clock boundary"; c.timeMs = b + off; c.msg = QStringLiteral("t"); c.type = int((b + off) % 5); run(c, "s");
    }
    // G: formatter objects constructed with non-default SDK name / version (empty ones included)
    {
        const QString names[] = { QStringLiteral("qtlogger.sentry"), QStringLiteral(""), QStringLiteral("my.sdk"), QStringLiteral("q\"\\") };
        const QString vers[] = { QStringLiteral("1.0.0"), QStringLiteral(""), QStringLiteral("2"), QString() };
        static std::vector<SentryFormatter *> keep;
        for (auto &n : names) for (auto &v : vers) {
            auto *f = new SentryFormatter(n, v); keep.push_back(f);
            for (int ty = 0; ty < 5; ty += 2) { Case c; c.desc = "formatter constructed with sdk name/version"; c.type = ty; c.msg = QStringLiteral("sdk"); c.fmt = f; run(c, "s"); }
        }
        auto *d = new SentryFormatter(); keep.push_back(d);
        Case c; c.desc = "default-constructed formatter"; c.msg = QStringLiteral("sdk"); c.fmt = d; run(c, "s");
    }
    // F: a burst of identical messages (ids must still differ)
    for (int i = 0; i < 2000; i++) { Case c; c.desc = "burst of identical messages"; c.msg = QStringLiteral("same"); run(c, "s"); }
}

} // namespace

int main(int argc, char **argv)
{
    QCoreApplication app(argc, argv);
    initSym();
    vdev::active = true; vdev::nowMs = 1704067200123LL;
    g_shard = vx::argInt(argc, argv, "--shard", 0); g_nshards = vx::argInt(argc, argv, "--nshards", 1);
    int len = vx::argInt(argc, argv, "--len", 2);
    std::string mode = vx::argStr(argc, argv, "--mode", "json");
    JsonFormatter fc(true), fi(false); SentryFormatter fs; fCompact = &fc; fIndent = &fi; fSentry = &fs;
    if (mode == "json") { jsonSpace(len); frontEnds(); } else sentrySpace(len);
    sum.bound = "strings <= " + std::to_string(len) + " symbols over " + std::to_string(SYM.size()) + " code points";
    sum.outcomes.insert("a"); sum.outcomes.insert("b");
    sum.print();
    return 0;
}
