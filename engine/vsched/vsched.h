// vsched: serialising scheduler + preemption-bounded stateless explorer.
//
// One EXECUTION = one forked child process. Inside it every "virtual thread" is a real pthread (thread-locals of Qt and of the
// code under test behave normally) but only the holder of the baton runs; at every schedule point (vs::point) the running thread
// publishes its pending operation with an enabledness predicate, the next thread is taken from the recorded choice list (then
// choice 0), and the baton is handed over. The child reports its trace + observations through a pipe and _exits.
//
// The PARENT explores choice sequences depth-first with iterative deviation bounding (CHESS): a deviation is
//   (a) a preemption (switching away from a thread that could continue),
//   (b) re-running a thread that has just yielded/slept while another thread is enabled,
//   (c) a timed wait timing out although another thread is enabled.
#pragma once
#include <functional>
#include <string>
#include <vector>

namespace vs {

// ---- inside an execution
bool active();                                   // false outside an execution: all vqt operations degrade to plain ones
int self();                                      // virtual thread id (0 = main)
int spawn(std::function<void()> body, const char *name); // new virtual thread, runnable at once; returns its id
bool isFinished(int tid);
void markTerminated(int tid);                    // thread is never scheduled again (QThread::terminate)
// schedule point BEFORE performing `op`. Returns true if the operation was resumed by its timeout (canTimeout) instead of by `enabled`.
// longOp: the operation stands for work of arbitrary duration (a handler's body): wall-clock time may pass here, see the time model in vsched.cpp
bool point(const char *op, std::function<bool()> enabled = nullptr, bool voluntary = false, bool canTimeout = false, bool longOp = false);
void progress();                                 // something observable happened (a delivery, an operation completed): resets the livelock watchdog
void observe(const std::string &line);           // appended to the execution's report (outcome = all lines)
void violation(const std::string &key, const std::string &what);
extern std::function<void()> atFinish;           // engine hook, runs first when an execution ends
extern std::function<void(const std::string &status)> atEnd; // harness oracle, runs in the child when the execution ends (any status)
long stepsSoFar();
int ownerQueryHook();                            // unused placeholder

// ---- explorer (parent)
struct Options {
    int bound = 2;            // max deviations
    int shard = 0, nshards = 1;
    int stepLimit = 20000;
    double deadline = 1e18;   // absolute time (seconds since epoch) after which the search stops (exhaustive:false)
    int execTimeoutMs = 30000;
    bool replayCheck = true;
    std::vector<int> replayChoices; // run exactly this execution, verbose
    bool verbose = false;
};
struct Result {
    long long executions = 0, steps = 0, replaysOk = 0, deadlocks = 0, livelocks = 0, blockedLockEvents = 0;
    int boundCompleted = -1;
    bool exhaustive = true;
    std::vector<std::string> outcomes;           // distinct reports (without violations)
    struct V { std::string key, what; std::vector<int> choices; std::string report; };
    std::vector<V> violations;
    long long violationCount = 0;
    std::vector<std::string> samples;
    std::string engineError;
};
// body = the scenario (runs as virtual thread 0 in each child)
Result explore(const std::function<void()> &body, const Options &opt);

} // namespace vs
