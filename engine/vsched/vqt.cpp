#include "vqt.h"

#include <algorithm>
#include <unistd.h>

namespace vqt {

Globals &G() { static Globals g; return g; }

static std::vector<std::pair<uintptr_t, uintptr_t>> &modelRanges() { static std::vector<std::pair<uintptr_t, uintptr_t>> r; return r; }
static void dumpModelRanges();
void registerModelRange(const void *p, size_t n)
{
    if (!vs::atFinish) vs::atFinish = dumpModelRanges;     // set here, at run time: static initialisation order between this file and vsched.cpp is unspecified
    modelRanges().push_back({ (uintptr_t)p, (uintptr_t)p + n });
}
static bool s_terminatedAThread = false;
static void dumpModelRanges()
{
    const char *dir = getenv("VQT_RANGE_DIR");
    if (!dir) return;
    char path[512]; snprintf(path, sizeof path, "%s/ranges.%d", dir, (int)getpid());
    if (FILE *f = fopen(path, "w")) { if (s_terminatedAThread) fprintf(f, "TERMINATE\n"); for (auto &r : modelRanges()) fprintf(f, "%lx %lx\n", (unsigned long)r.first, (unsigned long)r.second); fclose(f); }
}

static std::set<VThread *> &threads() { static std::set<VThread *> s; return s; }
static thread_local VThread *t_cur = nullptr;
static thread_local bool t_adopting = false;

VThread *mainThreadObject()
{
    static VThread *m = nullptr;
    if (!m) { t_adopting = true; m = new VThread(); t_adopting = false; m->m_adopted = true; m->m_running = true; m->m_started = true; m->m_tid = 0; }
    return m;
}
VThread *currentThreadObject()
{
    if (t_cur) return t_cur;
    if (!vs::active() || vs::self() == 0) return mainThreadObject();
    // a thread not started through VThread (harness producer): adopt it, like Qt's QAdoptedThread
    t_adopting = true; t_cur = new VThread(); t_adopting = false; t_cur->m_adopted = true; t_cur->m_running = true; t_cur->m_started = true; t_cur->m_tid = vs::self();
    return t_cur;
}
void setCurrentThreadObject(VThread *t) { t_cur = t; }
void yield(const char *tag) { vs::point(tag, nullptr, false, false, /* longOp: a handler of arbitrary duration */ true); }
bool alive(const VObject *o) { return o && G().live.count(o); }

VObject::VObject()
{
    VQT_MODEL(this, sizeof(VObject));
    G().live.insert(this);
    // an object lives in the thread that creates it (nullptr = the main thread)
    m_affinity = (t_adopting || !vs::active() || vs::self() == 0) ? nullptr : currentThreadObject();
}
VThread *VObject::thread() const { return m_affinity ? m_affinity : mainThreadObject(); }
VObject::~VObject()
{
    G().live.erase(this);
    disconnect(this);                    // connections die with their context object (R8)
    // QObject's destructor removes the events still posted to it
    for (VThread *t : threads()) {
        for (auto it = t->queue.begin(); it != t->queue.end();) {
            if (it->receiver == this) { VQT_ACQ(&t->queue); delete it->ev; it = t->queue.erase(it); } else ++it;   // Qt removes them under the post-event-list mutex
        }
    }
}

void VObject::deleteLater()
{
    if (m_deleteLater) return;          // Qt posts only one DeferredDelete per object
    m_deleteLater = true;
    if (vs::active()) vs::point("post");
    Posted p { this, nullptr, nullptr, true };
    VQT_REL(&thread()->queue);
    thread()->queue.push_back(p);
}
bool VObject::disconnect(VObject *, std::nullptr_t, VObject *context, std::nullptr_t) { return context ? context->disconnect(context) : false; }
bool VObject::disconnect(VObject *context)
{
    // drop the connections whose context object is `context` (or this) — the shapes the library could use
    VObject *c = context ? context : this;
    for (VThread *t : threads()) { auto &v = t->finishedCtx; v.erase(std::remove_if(v.begin(), v.end(), [c](const VThread::Ctx &x) { return x.ctx == c; }), v.end()); }
    if (VCoreApp::self) { auto &v = VCoreApp::self->aboutToQuitConns; v.erase(std::remove_if(v.begin(), v.end(), [c](const VCoreApp::Ctx &x) { return x.ctx == c; }), v.end()); }
    return true;
}

VThread::VThread() { VQT_MODEL(this, sizeof(VThread)); threads().insert(this); }
VThread::~VThread()
{
    if (vs::active() && m_started && m_running && !m_finished)
        vs::violation("touches-destroyed-object", "a QThread object is destroyed while its thread is still running");
    threads().erase(this);
    if (G().lastStarted == this) G().lastStarted = nullptr;
    if (!queue.empty()) VQT_ACQ(&queue);
    for (auto &p : queue) delete p.ev;
}

void VThread::start()
{
    vs::point("thread-start");
    if (m_running) return;
    m_running = true; m_finished = false; m_started = true;
    m_exit = false;                      // R3: start() clears a quit() issued earlier
    G().lastStarted = this;
    m_tid = vs::spawn([this] { threadBody(); }, "qthread");
}
void VThread::quit()
{
    vs::point("thread-quit");
    VQT_REL(&m_exit);
    m_exit = true;                       // R3
}
bool VThread::wait(unsigned long ms)
{
    if (!m_started) return true;
    if (m_finished) { VQT_ACQ(this); return true; }
    if (vs::active() && vs::self() == m_tid) return false; // "Thread tried to wait on itself"
    bool to = vs::point("thread-wait", [this] { return m_finished; }, false, ms != ULONG_MAX); // R6
    if (m_finished) VQT_ACQ(this);
    return m_finished || !to;
}
void VThread::terminate()
{
    vs::point("thread-terminate");
    if (!m_running || m_finished) return;
    if (inHandler) vs::observe("terminated-in-handler");
    s_terminatedAThread = true;          // a killed thread cannot announce any ordering: such executions are left out of the race pass
    vs::markTerminated(m_tid);           // R11: the thread ends where it is
    m_running = false;
    emitFinished();
    m_finished = true;
}
static void deliver(VThread *t, Posted &p)
{
    bool isMain = (t == mainThreadObject());
    if (p.deferredDelete) {              // R9
        if (alive(p.receiver)) delete p.receiver;
        return;
    }
    if (!isMain && !VCoreApp::self) {    // R4: events for secondary threads are discarded once the application object is gone
        t->discarded++;
        delete p.ev;
        return;
    }
    t->inHandler = true;
    if (p.call) { if (alive(p.receiver)) p.call(); }
    else if (alive(p.receiver)) p.receiver->customEvent(p.ev);
    t->inHandler = false;
    t->delivered++;
    delete p.ev;
}
int VThread::exec()
{
    vs::point("thread-exec");
    if (!m_exit) {                       // R3: quit() between start() and exec() makes exec() return at once
        for (;;) {
            vs::point("loop-batch", [this] { return !queue.empty() || m_exit; }); // idle: blocked
            if (m_exit) VQT_ACQ(&m_exit);
            if (m_exit && (!G().glibDispatcher || queue.empty())) break;          // R2'
            for (size_t n = queue.size(); n > 0 && !queue.empty(); n--) {         // R2: only what was queued when the batch began
                Posted p = queue.front();
                queue.pop_front();
                vs::point("loop-deliver");
                VQT_ACQ(&queue);
                deliver(this, p);
            }
            if (m_exit) break;           // R2: exit flag looked at between batches
        }
    }
    m_exit = false;
    return 0;
}
void VThread::threadBody()
{
    setCurrentThreadObject(this);
    run();
    m_running = false;
    emitFinished();
    // QThreadPrivate::finish: pending deferred deletes of this thread are carried out
    for (auto it = queue.begin(); it != queue.end();) {
        if (it->deferredDelete) { Posted p = *it; it = queue.erase(it); if (alive(p.receiver)) delete p.receiver; it = queue.begin(); } else ++it;
    }
    VQT_REL(this);                       // everything the thread did happens-before a successful wait()
    m_finished = true;
}
void VThread::emitFinished()
{
    for (auto &f : finishedDirect) f();  // R5: functor connections without context run in the finishing thread (here: delete worker)
    for (auto &c : finishedCtx) if (alive(c.ctx)) postCall(c.ctx->thread(), c.ctx, c.f); // R8 queued (receiver lives elsewhere)
}

VCoreApp *VCoreApp::self = nullptr;
bool VCoreApp::everCreated = false;
VCoreApp::VCoreApp() { VQT_MODEL(this, sizeof(VCoreApp)); self = this; everCreated = true; }
VCoreApp::~VCoreApp() { self = nullptr; }

void VCoreApp::postEvent(VObject *receiver, QEvent *ev, int)
{
    vs::point("post");
    if (!alive(receiver)) {              // real Qt: use after free
        G().postedToDead++;
        vs::violation("touches-destroyed-object", "an event is posted to an object that has already been destroyed");
        delete ev;
        return;
    }
    VThread *t = receiver->thread();
    VQT_REL(&t->queue);
    t->queue.push_back({ receiver, ev, nullptr }); // R1: FIFO at equal priority (the library posts at the default priority only)
}
void postCall(VThread *target, VObject *ctx, std::function<void()> f)
{
    VQT_REL(&target->queue);
    target->queue.push_back({ ctx, nullptr, std::move(f) });
}
void VCoreApp::quit()
{
    vs::point("app-quit");
    if (self) self->m_quit = true;
}
// processEvents() outside any running loop: queued calls and events are delivered, DeferredDelete events stay queued (R9)
static void mainBatch(bool deferredDeletes, VThread *m = nullptr)
{
    if (!m) m = mainThreadObject();
    std::deque<Posted> keep;
    for (size_t n = m->queue.size(); n > 0 && !m->queue.empty(); n--) {
        Posted p = m->queue.front();
        m->queue.pop_front();
        if (p.deferredDelete && !deferredDeletes) { keep.push_back(p); continue; }
        vs::point("main-deliver");
        VQT_ACQ(&m->queue);
        deliver(m, p);
    }
    for (auto it = keep.rbegin(); it != keep.rend(); ++it) m->queue.push_front(*it);
}
// processEvents() works on the queue of the CALLING thread (a handler that pumps the event loop on the logger thread re-enters that
// thread's event delivery)
void VCoreApp::processEvents() { mainBatch(false, vs::active() ? currentThreadObject() : nullptr); }
void VCoreApp::runLocalLoopUntilIdle()
{
    VThread *m = mainThreadObject();
    for (int guard = 0; guard < 100 && !m->queue.empty(); guard++) mainBatch(true);
}
void VCoreApp::sendPostedEvents(VObject *receiver, int)
{
    // only the calling thread's own queue is looked at (Qt: "events for objects living in another thread are not dispatched")
    VThread *t = currentThreadObject();
    for (size_t n = t->queue.size(), i = 0; i < n && !t->queue.empty(); i++) {
        Posted p = t->queue.front();
        t->queue.pop_front();
        if (p.deferredDelete || (receiver && p.receiver != receiver)) { t->queue.push_back(p); continue; }
        vs::point("send-posted");
        VQT_ACQ(&t->queue);
        deliver(t, p);
    }
}
void VCoreApp::removePostedEvents(VObject *receiver, int)
{
    vs::point("remove-posted");
    for (VThread *t : threads())
        for (auto it = t->queue.begin(); it != t->queue.end();) {
            if ((!receiver || it->receiver == receiver) && !it->deferredDelete) { VQT_ACQ(&t->queue); delete it->ev; it = t->queue.erase(it); } else ++it;
        }
}
int VCoreApp::exec()
{
    if (!self) return -1;
    VThread *m = mainThreadObject();
    for (;;) {
        vs::point("app-exec", [m] { return (self && self->m_quit) || !m->queue.empty(); });
        mainBatch(true);
        if (!self || self->m_quit) break;
    }
    // R7: aboutToQuit is emitted when exec() returns, once
    auto conns = self->aboutToQuitConns;
    for (auto &c : conns) {
        if (!alive(c.ctx)) continue;                                   // R8: dropped with its context object
        VThread *ct = c.ctx->thread();
        if (ct == currentThreadObject()) c.f(); else postCall(ct, c.ctx, c.f);
    }
    self->m_quit = false;
    return 0;
}

} // namespace vqt
