// vqt: the model of Qt's threading API that the code under test is compiled against (see vqt_retarget.h).
// Every operation that synchronises or communicates between threads is a schedule point of vsched; outside an execution
// (static initialisation, after the verdict) the classes degrade to plain single-threaded objects.
// Rules R1..R11 (DESIGN.md §3.3) are marked where they are implemented.
#pragma once
#include <QtCore>

#include <deque>
#include <functional>
#include <map>
#include <set>
#include <vector>

#include "vsched.h"

namespace vqt {

class VThread;
class VObject;

struct Posted { VObject *receiver; QEvent *ev; std::function<void()> call; };

struct Globals {
    std::set<const VObject *> live;          // for context-bound connections and VPointer
    bool glibDispatcher = true;              // R2'
    long postedToDead = 0;
};
Globals &G();
VThread *mainThreadObject();
VThread *currentThreadObject();
void setCurrentThreadObject(VThread *t);
void yield(const char *tag);                  // harness handlers of arbitrary duration

// ------------------------------------------------------------------------------------------------ mutexes / atomics (R10)
class VMutex
{
public:
    enum RecursionMode { NonRecursive, Recursive };
    explicit VMutex(RecursionMode m = NonRecursive) : m_recursive(m == Recursive) { }
    void lock()
    {
        if (!vs::active()) { m_owner = 0; m_depth++; return; }
        int me = vs::self();
        vs::point("lock", [this, me] { return m_owner == -1 || (m_recursive && m_owner == me); });
        m_owner = me; m_depth++;
    }
    bool tryLock()
    {
        if (!vs::active()) { m_owner = 0; m_depth++; return true; }
        int me = vs::self();
        vs::point("trylock");
        if (m_owner == -1 || (m_recursive && m_owner == me)) { m_owner = me; m_depth++; return true; }
        return false;
    }
    void unlock()
    {
        if (!vs::active()) { if (m_depth > 0 && --m_depth == 0) m_owner = -1; return; }
        vs::point("unlock");
        if (m_depth > 0 && --m_depth == 0) m_owner = -1;
    }
    int owner() const { return m_owner; }
protected:
    bool m_recursive;
    int m_owner = -1, m_depth = 0;
};
class VRecursiveMutex : public VMutex
{
public:
    VRecursiveMutex() : VMutex(Recursive) { }
};
class VMutexLocker
{
public:
    explicit VMutexLocker(VMutex *m) : m_m(m) { if (m_m) { m_m->lock(); m_locked = true; } }
    ~VMutexLocker() { if (m_locked) m_m->unlock(); }
    void unlock() { if (m_locked) { m_m->unlock(); m_locked = false; } }
    void relock() { if (m_m && !m_locked) { m_m->lock(); m_locked = true; } }
    VMutex *mutex() const { return m_m; }
private:
    VMutex *m_m; bool m_locked = false;
    Q_DISABLE_COPY(VMutexLocker)
};

class VAtomicInt
{
public:
    VAtomicInt(int v = 0) : m_v(v) { }
    int loadAcquire() const { vs::point("atomic-load"); return m_v; }
    int loadRelaxed() const { vs::point("atomic-load"); return m_v; }
    int load() const { vs::point("atomic-load"); return m_v; }
    void storeRelease(int v) { vs::point("atomic-store"); m_v = v; }
    void storeRelaxed(int v) { vs::point("atomic-store"); m_v = v; }
    int fetchAndAddOrdered(int d) { vs::point("atomic-rmw"); int o = m_v; m_v += d; return o; }
    int fetchAndSubOrdered(int d) { vs::point("atomic-rmw"); int o = m_v; m_v -= d; return o; }
    int fetchAndAddRelaxed(int d) { return fetchAndAddOrdered(d); }
    int fetchAndAddAcquire(int d) { return fetchAndAddOrdered(d); }
    int fetchAndAddRelease(int d) { return fetchAndAddOrdered(d); }
    int fetchAndSubRelaxed(int d) { return fetchAndSubOrdered(d); }
    int fetchAndSubAcquire(int d) { return fetchAndSubOrdered(d); }
    int fetchAndSubRelease(int d) { return fetchAndSubOrdered(d); }
    bool testAndSetOrdered(int e, int n) { vs::point("atomic-rmw"); if (m_v == e) { m_v = n; return true; } return false; }
    bool ref() { vs::point("atomic-rmw"); return ++m_v != 0; }
    bool deref() { vs::point("atomic-rmw"); return --m_v != 0; }
    operator int() const { return loadAcquire(); }
    VAtomicInt &operator=(int v) { storeRelease(v); return *this; }
    int operator++() { return fetchAndAddOrdered(1) + 1; }
    int operator++(int) { return fetchAndAddOrdered(1); }
    int operator--() { return fetchAndSubOrdered(1) - 1; }
    int operator--(int) { return fetchAndSubOrdered(1); }
    int peek() const { return m_v; } // harness only, no schedule point
private:
    int m_v;
};
template<class T> class VAtomicPointer
{
public:
    VAtomicPointer(T *v = nullptr) : m_v(v) { }
    T *loadAcquire() const { vs::point("atomic-load"); return m_v; }
    T *loadRelaxed() const { vs::point("atomic-load"); return m_v; }
    T *load() const { vs::point("atomic-load"); return m_v; }
    void storeRelease(T *v) { vs::point("atomic-store"); m_v = v; }
    void storeRelaxed(T *v) { vs::point("atomic-store"); m_v = v; }
    void store(T *v) { vs::point("atomic-store"); m_v = v; }
    bool testAndSetOrdered(T *e, T *n) { vs::point("atomic-rmw"); if (m_v == e) { m_v = n; return true; } return false; }
    T *fetchAndStoreOrdered(T *n) { vs::point("atomic-rmw"); T *o = m_v; m_v = n; return o; }
    operator T *() const { return loadAcquire(); }
    VAtomicPointer &operator=(T *v) { storeRelease(v); return *this; }
private:
    T *m_v;
};

// ------------------------------------------------------------------------------------------------ objects, threads, application
class VObject
{
public:
    VObject();
    explicit VObject(VObject *) : VObject() { }
    virtual ~VObject();
    VThread *thread() const; // never null: the main thread's object for objects created there
    void moveToThread(VThread *t) { m_affinity = t; }
    virtual void customEvent(QEvent *) { }
    virtual bool event(QEvent *) { return false; }
    void deleteLater() { m_deleteLater = true; } // R9: runs only if the owning loop processes deferred deletes; modelled as "never" (a leak), see DESIGN
    bool deleteLaterRequested() const { return m_deleteLater; }

    // the connect shapes the library uses (R8)
    template<class S, class F> static bool connect(VObject *sender, void (S::*signal)(), VObject *context, F functor);
    template<class S, class F> static bool connect(VObject *sender, void (S::*signal)(), F functor);

private:
    VThread *m_affinity;
    bool m_deleteLater = false;
};

template<class T> class VPointer
{
public:
    VPointer() { }
    VPointer(T *p) : m_p(p) { }
    VPointer &operator=(T *p) { m_p = p; return *this; }
    T *data() const { return (m_p && G().live.count(static_cast<const VObject *>(m_p))) ? m_p : nullptr; }
    T *operator->() const { return data(); }
    T &operator*() const { return *data(); }
    operator T *() const { return data(); }
    bool isNull() const { return data() == nullptr; }
    void clear() { m_p = nullptr; }
private:
    T *m_p = nullptr;
};

class VThread : public VObject
{
public:
    VThread();
    explicit VThread(VObject *) : VThread() { }
    ~VThread() override;
    void start();
    void quit();
    void exit(int = 0) { quit(); }
    bool wait(unsigned long ms = ULONG_MAX);
    bool wait(QDeadlineTimer t) { return wait(t.isForever() ? ULONG_MAX : (unsigned long)t.remainingTime()); }
    void terminate();
    bool isRunning() const { return m_running; }
    bool isFinished() const { return m_finished; }
    void requestInterruption() { }
    static void msleep(unsigned long) { vs::point("sleep", nullptr, /* voluntary */ true); }
    static void sleep(unsigned long) { vs::point("sleep", nullptr, true); }
    static void usleep(unsigned long) { vs::point("sleep", nullptr, true); }
    static void yieldCurrentThread() { vs::point("sleep", nullptr, true); }
    static VThread *currentThread() { return currentThreadObject(); }
    static Qt::HANDLE currentThreadId() { return ::QThread::currentThreadId(); } // the real id: LogMessage copies it, sinks compare it
    void finished() { }  // signal (identity only)
    void started() { }

    // model state
    std::deque<Posted> queue;
    bool m_running = false, m_finished = false, m_exit = false, m_started = false, m_adopted = false;
    int m_tid = -1;
    std::vector<std::function<void()>> finishedDirect;   // connections without context: run in the finishing thread (R5)
    struct Ctx { VObject *ctx; std::function<void()> f; };
    std::vector<Ctx> finishedCtx;
    long delivered = 0, discarded = 0;
    bool inHandler = false;
private:
    void run();
    void emitFinished();
};

class VCoreApp : public VObject
{
public:
    VCoreApp(int &, char **) : VCoreApp() { }
    VCoreApp();
    ~VCoreApp() override;
    static VCoreApp *instance() { return self; }
    static void postEvent(VObject *receiver, QEvent *ev, int priority = Qt::NormalEventPriority);
    static void quit();
    static void exit(int = 0) { quit(); }
    static int exec();
    static void processEvents();
    static QString applicationName() { return ::QCoreApplication::applicationName(); }
    static QString applicationVersion() { return ::QCoreApplication::applicationVersion(); }
    static QString organizationName() { return ::QCoreApplication::organizationName(); }
    static QString applicationFilePath() { return ::QCoreApplication::applicationFilePath(); }
    static qint64 applicationPid() { return ::QCoreApplication::applicationPid(); }
    void aboutToQuit() { } // signal (identity only)

    static VCoreApp *self;
    struct Ctx { VObject *ctx; std::function<void()> f; };
    std::vector<Ctx> aboutToQuitConns;
    bool m_quit = false;
};

void postCall(VThread *target, VObject *ctx, std::function<void()> f); // queued functor bound to a context object
bool alive(const VObject *o);

// ---- connect implementations
template<class S, class F> bool VObject::connect(VObject *sender, void (S::*)(), VObject *context, F functor)
{
    if (!sender || !context) return false;
    std::function<void()> f;
    // the only member-slot shape in the library: connect(thread, &QThread::finished, thread, &QThread::deleteLater)
    if constexpr (std::is_member_function_pointer<F>::value) f = [context] { context->deleteLater(); };
    else f = functor;
    if (auto app = dynamic_cast<VCoreApp *>(sender)) { app->aboutToQuitConns.push_back({ context, f }); return true; }
    if (auto th = dynamic_cast<VThread *>(sender)) { th->finishedCtx.push_back({ context, f }); return true; }
    return false;
}
template<class S, class F> bool VObject::connect(VObject *sender, void (S::*)(), F functor)
{
    if (auto th = dynamic_cast<VThread *>(sender)) { th->finishedDirect.push_back(std::function<void()>(functor)); return true; }
    if (auto app = dynamic_cast<VCoreApp *>(sender)) { app->aboutToQuitConns.push_back({ app, std::function<void()>(functor) }); return true; }
    return false;
}

} // namespace vqt
