// vqt: the model of Qt's threading API that the code under test is compiled against (see vqt_retarget.h).
// Every operation that synchronises or communicates between threads is a schedule point of vsched; outside an execution
// (static initialisation, after the verdict) the classes degrade to plain single-threaded objects.
// Rules R1..R11 (DESIGN.md §3.3) are marked where they are implemented.
#pragma once
#include <QtCore>

#include <deque>
#include <functional>
#include <map>
#include <set>
#include <vector>

#include "vsched.h"

// Race pass (ThreadSanitizer under the serialising scheduler): the scheduler's hand-offs are invisible to the detector, so the
// ONLY happens-before edges it sees are the ones the program under test really creates - announced here, operation by operation.
#if defined(__SANITIZE_THREAD__)
extern "C" { void __tsan_acquire(void *addr); void __tsan_release(void *addr); }
#  define VQT_ACQ(p) __tsan_acquire((void *)(p))
#  define VQT_REL(p) __tsan_release((void *)(p))
#  define VQT_MODEL(p, n) vqt::registerModelRange((p), (n))
#else
#  define VQT_ACQ(p) ((void)0)
#  define VQT_REL(p) ((void)0)
#  define VQT_MODEL(p, n) ((void)0)
#endif

namespace vqt {
// Race pass: model objects are embedded in objects of the code under test (a VMutex member, the VObject base of a worker) and
// the model's own fields are touched by inlined model code that the detector attributes to the enclosing library function.
// Every model object announces its address range; the ranges are written next to the detector's log when the execution ends
// and reports on addresses inside them are the model's bookkeeping (serialised by the invisible baton), not the library's.
void registerModelRange(const void *p, size_t n);

class VThread;
class VObject;

struct Posted { VObject *receiver; QEvent *ev; std::function<void()> call; bool deferredDelete = false; };

// every lock object of the model registers here, so that oracles can ask "which locks does thread T hold" and "is anybody
// waiting for them" without knowing the private members of the code under test
struct LockState {
    const char *kind = "mutex";
    int owner = -1, depth = 0;               // exclusive owner (writer)
    std::map<int, int> readers;              // shared owners (read-write locks)
    int waiters = 0;                         // threads parked in lock() right now
    bool heldBy(int tid) const { return owner == tid || readers.count(tid); }
};
struct Globals {
    std::set<const VObject *> live;          // for context-bound connections and VPointer
    bool glibDispatcher = true;              // R2'
    long postedToDead = 0;
    std::set<LockState *> locks;
    VThread *lastStarted = nullptr;          // the thread object most recently start()ed (harness: "the worker")
    std::function<void(LockState *, int /*me*/)> onContend; // a thread is about to wait for a lock somebody else holds
    std::function<void()> onSleep;           // a thread is about to sleep / poll (oracle: a logging call never waits for the logger thread)
    long timedLockTimeouts = 0;
};
Globals &G();
VThread *mainThreadObject();
VThread *currentThreadObject();
void setCurrentThreadObject(VThread *t);
void yield(const char *tag);                  // harness handlers of arbitrary duration

// ------------------------------------------------------------------------------------------------ mutexes / atomics (R10)
class VMutex
{
public:
    enum RecursionMode { NonRecursive, Recursive };
    explicit VMutex(RecursionMode m = NonRecursive) : m_recursive(m == Recursive) { G().locks.insert(&st); VQT_MODEL(this, sizeof *this); }
    ~VMutex() { G().locks.erase(&st); }
    void lock()
    {
        if (!vs::active()) { st.owner = 0; st.depth++; return; }
        int me = vs::self();
        bool contended = !(st.owner == -1 || (m_recursive && st.owner == me));
        if (contended && G().onContend) G().onContend(&st, me);
        st.waiters++;
        vs::point("lock", [this, me] { return st.owner == -1 || (m_recursive && st.owner == me); });
        st.waiters--;
        st.owner = me; st.depth++;
        VQT_ACQ(&st);
    }
    bool tryLock(int timeout = 0)
    {
        if (!vs::active()) { st.owner = 0; st.depth++; return true; }
        int me = vs::self();
        if (timeout == 0) {
            vs::point("trylock");
            if (st.owner == -1 || (m_recursive && st.owner == me)) { st.owner = me; st.depth++; VQT_ACQ(&st); return true; }
            return false;
        }
        // timed: waits like lock(); the timeout fires only as a counted deviation (or when nothing else can run)
        bool contended = !(st.owner == -1 || (m_recursive && st.owner == me));
        if (contended && G().onContend) G().onContend(&st, me);
        st.waiters++;
        bool to = vs::point("trylock-timed", [this, me] { return st.owner == -1 || (m_recursive && st.owner == me); }, false, timeout > 0);
        st.waiters--;
        if (to && !(st.owner == -1 || (m_recursive && st.owner == me))) { G().timedLockTimeouts++; return false; }
        st.owner = me; st.depth++;
        VQT_ACQ(&st);
        return true;
    }
    bool try_lock() { return tryLock(); }
    template<class R, class P> bool try_lock_for(std::chrono::duration<R, P> d) { return tryLock(d.count() > 0 ? 1 : 0); }
    void unlock()
    {
        if (!vs::active()) { if (st.depth > 0 && --st.depth == 0) st.owner = -1; return; }
        vs::point("unlock");
        VQT_REL(&st);
        if (st.depth > 0 && --st.depth == 0) st.owner = -1;
    }
    bool isRecursive() const { return m_recursive; }
    int owner() const { return st.owner; }
    // for VWaitCondition: give the mutex up / take it back without a schedule point of its own
    void releaseForWait() { VQT_REL(&st); st.depth = 0; st.owner = -1; }
    LockState st;
protected:
    bool m_recursive;
private:
    Q_DISABLE_COPY(VMutex)
};
class VRecursiveMutex : public VMutex
{
public:
    VRecursiveMutex() : VMutex(Recursive) { }
};
class VMutexLocker
{
public:
    explicit VMutexLocker(VMutex *m) : m_m(m) { if (m_m) { m_m->lock(); m_locked = true; } }
    ~VMutexLocker() { if (m_locked) m_m->unlock(); }
    void unlock() { if (m_locked) { m_m->unlock(); m_locked = false; } }
    void relock() { if (m_m && !m_locked) { m_m->lock(); m_locked = true; } }
    VMutex *mutex() const { return m_m; }
private:
    VMutex *m_m; bool m_locked = false;
    Q_DISABLE_COPY(VMutexLocker)
};

class VReadWriteLock
{
public:
    enum RecursionMode { NonRecursive, Recursive };
    explicit VReadWriteLock(RecursionMode = NonRecursive) { st.kind = "rwlock"; G().locks.insert(&st); VQT_MODEL(this, sizeof *this); }
    ~VReadWriteLock() { G().locks.erase(&st); }
    void lockForRead() { lockImpl(false, -1); }
    void lockForWrite() { lockImpl(true, -1); }
    bool tryLockForRead(int timeout = 0) { return lockImpl(false, timeout); }
    bool tryLockForWrite(int timeout = 0) { return lockImpl(true, timeout); }
    void unlock()
    {
        int me = vs::active() ? vs::self() : 0;
        if (vs::active()) vs::point("rw-unlock");
        VQT_REL(&st);
        if (st.owner == me) { if (--st.depth <= 0) { st.owner = -1; st.depth = 0; } }
        else { auto it = st.readers.find(me); if (it != st.readers.end() && --it->second <= 0) st.readers.erase(it); }
    }
    LockState st;
private:
    bool can(bool write, int me) const
    {
        if (st.owner != -1) return st.owner == me;
        if (!write) return true;
        for (auto &r : st.readers) if (r.first != me) return false;
        return true;
    }
    bool lockImpl(bool write, int timeout) // timeout: -1 wait forever, 0 try, >0 timed
    {
        int me = vs::active() ? vs::self() : 0;
        if (vs::active()) {
            if (timeout == 0) { vs::point("rw-trylock"); if (!can(write, me)) return false; }
            else {
                if (!can(write, me) && G().onContend) G().onContend(&st, me);
                st.waiters++;
                bool to = vs::point(write ? "rw-lock-write" : "rw-lock-read", [this, write, me] { return can(write, me); }, false, timeout > 0);
                st.waiters--;
                if (to && !can(write, me)) { G().timedLockTimeouts++; return false; }
            }
        }
        if (write) { st.owner = me; st.depth++; } else st.readers[me]++;
        VQT_ACQ(&st);
        return true;
    }
    Q_DISABLE_COPY(VReadWriteLock)
};
class VReadLocker
{
public:
    explicit VReadLocker(VReadWriteLock *l) : m_l(l) { relock(); }
    ~VReadLocker() { unlock(); }
    void unlock() { if (m_l && m_locked) { m_l->unlock(); m_locked = false; } }
    void relock() { if (m_l && !m_locked) { m_l->lockForRead(); m_locked = true; } }
    VReadWriteLock *readWriteLock() const { return m_l; }
private:
    VReadWriteLock *m_l; bool m_locked = false;
    Q_DISABLE_COPY(VReadLocker)
};
class VWriteLocker
{
public:
    explicit VWriteLocker(VReadWriteLock *l) : m_l(l) { relock(); }
    ~VWriteLocker() { unlock(); }
    void unlock() { if (m_l && m_locked) { m_l->unlock(); m_locked = false; } }
    void relock() { if (m_l && !m_locked) { m_l->lockForWrite(); m_locked = true; } }
    VReadWriteLock *readWriteLock() const { return m_l; }
private:
    VReadWriteLock *m_l; bool m_locked = false;
    Q_DISABLE_COPY(VWriteLocker)
};
class VSemaphore
{
public:
    explicit VSemaphore(int n = 0) : m_avail(n) { VQT_MODEL(this, sizeof *this); }
    void acquire(int n = 1) { if (vs::active()) vs::point("sem-acquire", [this, n] { return m_avail >= n; }); m_avail -= n; VQT_ACQ(this); }
    bool tryAcquire(int n = 1) { if (vs::active()) vs::point("sem-tryacquire"); if (m_avail < n) return false; m_avail -= n; VQT_ACQ(this); return true; }
    bool tryAcquire(int n, int timeout)
    {
        if (timeout == 0) return tryAcquire(n);
        bool to = vs::active() ? vs::point("sem-acquire-timed", [this, n] { return m_avail >= n; }, false, timeout > 0) : false;
        if (to && m_avail < n) return false;
        m_avail -= n; VQT_ACQ(this); return true;
    }
    void release(int n = 1) { if (vs::active()) vs::point("sem-release"); VQT_REL(this); m_avail += n; }
    int available() const { if (vs::active()) vs::point("sem-available"); return m_avail; }
private:
    int m_avail;
    Q_DISABLE_COPY(VSemaphore)
};
class VWaitCondition
{
public:
    VWaitCondition() { VQT_MODEL(this, sizeof *this); }
    bool wait(VMutex *m, unsigned long ms = ULONG_MAX)
    {
        if (!vs::active()) return true;
        int me = vs::self();
        m->releaseForWait();               // atomically with going to sleep: no schedule point in between
        m_waiting.insert(me);
        bool to = vs::point("cond-wait", [this, me] { return m_woken.count(me) > 0; }, false, ms != ULONG_MAX);
        m_waiting.erase(me);
        bool woken = m_woken.erase(me) > 0;
        if (woken) VQT_ACQ(this);
        m->lock();
        return woken || !to;
    }
    bool wait(VMutex *m, QDeadlineTimer t) { return wait(m, t.isForever() ? ULONG_MAX : (unsigned long)t.remainingTime()); }
    void wakeOne() { if (vs::active()) vs::point("cond-wake"); VQT_REL(this); if (!m_waiting.empty()) { int t = *m_waiting.begin(); m_waiting.erase(m_waiting.begin()); m_woken.insert(t); } }
    void wakeAll() { if (vs::active()) vs::point("cond-wake"); VQT_REL(this); for (int t : m_waiting) m_woken.insert(t); m_waiting.clear(); }
    void notify_one() { wakeOne(); }
    void notify_all() { wakeAll(); }
private:
    std::set<int> m_waiting, m_woken;
    Q_DISABLE_COPY(VWaitCondition)
};

template<class T> class VAtomicInteger
{
public:
    VAtomicInteger(T v = 0) : m_v(v) { VQT_MODEL(this, sizeof *this); }
    VAtomicInteger(const VAtomicInteger &o) : m_v(o.m_v) { VQT_MODEL(this, sizeof *this); }
    VAtomicInteger &operator=(const VAtomicInteger &o) { m_v = o.m_v; return *this; }
    // relaxed operations order nothing: no edge announced for them (a hand-off that relies on a relaxed access is a race)
    T loadAcquire() const { vs::point("atomic-load"); VQT_ACQ(this); return m_v; }
    T loadRelaxed() const { vs::point("atomic-load"); return m_v; }
    T load() const { vs::point("atomic-load"); VQT_ACQ(this); return m_v; }
    void storeRelease(T v) { vs::point("atomic-store"); VQT_REL(this); m_v = v; }
    void storeRelaxed(T v) { vs::point("atomic-store"); m_v = v; }
    void store(T v) { vs::point("atomic-store"); VQT_REL(this); m_v = v; }
    T fetchAndAddOrdered(T d) { vs::point("atomic-rmw"); VQT_ACQ(this); VQT_REL(this); T o = m_v; m_v += d; return o; }
    T fetchAndSubOrdered(T d) { vs::point("atomic-rmw"); VQT_ACQ(this); VQT_REL(this); T o = m_v; m_v -= d; return o; }
    T fetchAndAddRelaxed(T d) { return fetchAndAddOrdered(d); }
    T fetchAndAddAcquire(T d) { return fetchAndAddOrdered(d); }
    T fetchAndAddRelease(T d) { return fetchAndAddOrdered(d); }
    T fetchAndSubRelaxed(T d) { return fetchAndSubOrdered(d); }
    T fetchAndSubAcquire(T d) { return fetchAndSubOrdered(d); }
    T fetchAndSubRelease(T d) { return fetchAndSubOrdered(d); }
    T fetchAndStoreOrdered(T n) { vs::point("atomic-rmw"); VQT_ACQ(this); VQT_REL(this); T o = m_v; m_v = n; return o; }
    T fetchAndStoreRelaxed(T n) { return fetchAndStoreOrdered(n); }
    T fetchAndStoreAcquire(T n) { return fetchAndStoreOrdered(n); }
    T fetchAndStoreRelease(T n) { return fetchAndStoreOrdered(n); }
    T fetchAndOrOrdered(T d) { vs::point("atomic-rmw"); VQT_ACQ(this); VQT_REL(this); T o = m_v; m_v |= d; return o; }
    T fetchAndAndOrdered(T d) { vs::point("atomic-rmw"); VQT_ACQ(this); VQT_REL(this); T o = m_v; m_v &= d; return o; }
    bool testAndSetOrdered(T e, T n) { vs::point("atomic-rmw"); VQT_ACQ(this); VQT_REL(this); if (m_v == e) { m_v = n; return true; } return false; }
    bool testAndSetOrdered(T e, T n, T &cur) { vs::point("atomic-rmw"); VQT_ACQ(this); VQT_REL(this); cur = m_v; if (m_v == e) { m_v = n; return true; } return false; }
    bool testAndSetRelaxed(T e, T n) { return testAndSetOrdered(e, n); }
    bool testAndSetAcquire(T e, T n) { return testAndSetOrdered(e, n); }
    bool testAndSetRelease(T e, T n) { return testAndSetOrdered(e, n); }
    bool ref() { vs::point("atomic-rmw"); VQT_ACQ(this); VQT_REL(this); return ++m_v != 0; }
    bool deref() { vs::point("atomic-rmw"); VQT_ACQ(this); VQT_REL(this); return --m_v != 0; }
    operator T() const { return loadAcquire(); }
    VAtomicInteger &operator=(T v) { storeRelease(v); return *this; }
    T operator++() { return fetchAndAddOrdered(1) + 1; }
    T operator++(int) { return fetchAndAddOrdered(1); }
    T operator--() { return fetchAndSubOrdered(1) - 1; }
    T operator--(int) { return fetchAndSubOrdered(1); }
    T operator+=(T d) { return fetchAndAddOrdered(d) + d; }
    T operator-=(T d) { return fetchAndSubOrdered(d) - d; }
    T peek() const { return m_v; } // harness only, no schedule point
private:
    T m_v;
};
using VAtomicInt = VAtomicInteger<int>;
template<class T> class VAtomicPointer
{
public:
    VAtomicPointer(T *v = nullptr) : m_v(v) { VQT_MODEL(this, sizeof *this); }
    T *loadAcquire() const { vs::point("atomic-load"); VQT_ACQ(this); return m_v; }
    T *loadRelaxed() const { vs::point("atomic-load"); return m_v; }
    T *load() const { vs::point("atomic-load"); VQT_ACQ(this); return m_v; }
    void storeRelease(T *v) { vs::point("atomic-store"); VQT_REL(this); m_v = v; }
    void storeRelaxed(T *v) { vs::point("atomic-store"); m_v = v; }
    void store(T *v) { vs::point("atomic-store"); VQT_REL(this); m_v = v; }
    bool testAndSetOrdered(T *e, T *n) { vs::point("atomic-rmw"); VQT_ACQ(this); VQT_REL(this); if (m_v == e) { m_v = n; return true; } return false; }
    bool testAndSetOrdered(T *e, T *n, T *&cur) { vs::point("atomic-rmw"); VQT_ACQ(this); VQT_REL(this); cur = m_v; if (m_v == e) { m_v = n; return true; } return false; }
    bool testAndSetRelaxed(T *e, T *n) { return testAndSetOrdered(e, n); }
    bool testAndSetAcquire(T *e, T *n) { return testAndSetOrdered(e, n); }
    bool testAndSetRelease(T *e, T *n) { return testAndSetOrdered(e, n); }
    T *fetchAndStoreOrdered(T *n) { vs::point("atomic-rmw"); VQT_ACQ(this); VQT_REL(this); T *o = m_v; m_v = n; return o; }
    T *fetchAndStoreRelaxed(T *n) { return fetchAndStoreOrdered(n); }
    T *fetchAndStoreAcquire(T *n) { return fetchAndStoreOrdered(n); }
    T *fetchAndStoreRelease(T *n) { return fetchAndStoreOrdered(n); }
    T *operator->() const { return loadAcquire(); }
    operator T *() const { return loadAcquire(); }
    VAtomicPointer &operator=(T *v) { storeRelease(v); return *this; }
private:
    T *m_v;
};

// ------------------------------------------------------------------------------------------------ objects, threads, application
class VObject
{
public:
    VObject();
    explicit VObject(VObject *) : VObject() { }
    virtual ~VObject();
    VThread *thread() const; // never null: the main thread's object for objects created there
    void moveToThread(VThread *t) { m_affinity = t; }
    virtual void customEvent(QEvent *) { }
    virtual bool event(QEvent *) { return false; }
    void deleteLater();                 // R9: a DeferredDelete event for the owning thread; only exec()-style loops (and a finishing thread) act on it
    bool deleteLaterRequested() const { return m_deleteLater; }
    void setObjectName(const QString &n) { m_name = n; }
    QString objectName() const { return m_name; }
    void setParent(VObject *) { }
    VObject *parent() const { return nullptr; }

    // the connect shapes the library uses (R8)
    template<class S, class F> static bool connect(VObject *sender, void (S::*signal)(), VObject *context, F functor, Qt::ConnectionType = Qt::AutoConnection);
    template<class S, class F> static bool connect(VObject *sender, void (S::*signal)(), F functor);
    static bool disconnect(VObject *sender, std::nullptr_t, VObject *context, std::nullptr_t);
    bool disconnect(VObject *context = nullptr);

private:
    VThread *m_affinity;
    bool m_deleteLater = false;
    QString m_name;
};

template<class T> class VPointer
{
public:
    VPointer() { }
    VPointer(T *p) : m_p(p) { }
    VPointer &operator=(T *p) { m_p = p; return *this; }
    T *data() const { return (m_p && G().live.count(static_cast<const VObject *>(m_p))) ? m_p : nullptr; }
    T *operator->() const { return data(); }
    T &operator*() const { return *data(); }
    operator T *() const { return data(); }
    bool isNull() const { return data() == nullptr; }
    void clear() { m_p = nullptr; }
private:
    T *m_p = nullptr;
};

class VThread : public VObject
{
public:
    VThread();
    explicit VThread(VObject *) : VThread() { }
    ~VThread() override;
    void start();
    void quit();
    void exit(int = 0) { quit(); }
    bool wait(unsigned long ms = ULONG_MAX);
    bool wait(QDeadlineTimer t) { return wait(t.isForever() ? ULONG_MAX : (unsigned long)t.remainingTime()); }
    void terminate();
    bool isRunning() const { return m_running; }
    bool isFinished() const { return m_finished; }
    void requestInterruption() { m_interrupt = true; }
    bool isInterruptionRequested() const { return m_interrupt; }
    void setPriority(int) { }
    void setStackSize(uint) { }
    static int idealThreadCount() { return 4; }
    bool m_interrupt = false;
    static void msleep(unsigned long) { if (G().onSleep) G().onSleep(); vs::point("sleep", nullptr, /* voluntary */ true); }
    static void sleep(unsigned long) { msleep(0); }
    static void usleep(unsigned long) { msleep(0); }
    static void yieldCurrentThread() { msleep(0); }
    static VThread *currentThread() { return currentThreadObject(); }
    static Qt::HANDLE currentThreadId() { return ::QThread::currentThreadId(); } // the real id: LogMessage copies it, sinks compare it
    void finished() { }  // signal (identity only)
    void started() { }

    // model state
    std::deque<Posted> queue;
    bool m_running = false, m_finished = false, m_exit = false, m_started = false, m_adopted = false;
    int m_tid = -1;
    std::vector<std::function<void()>> finishedDirect;   // connections without context: run in the finishing thread (R5)
    struct Ctx { VObject *ctx; std::function<void()> f; };
    std::vector<Ctx> finishedCtx;
    long delivered = 0, discarded = 0;
    bool inHandler = false;
protected:
    virtual void run() { exec(); }      // subclasses may override, as with QThread
    int exec();                         // the thread's event loop (R2, R2', R3)
private:
    void threadBody();
    void emitFinished();
};

class VCoreApp : public VObject
{
public:
    VCoreApp(int &, char **) : VCoreApp() { }
    VCoreApp();
    ~VCoreApp() override;
    static VCoreApp *instance() { return self; }
    static void postEvent(VObject *receiver, QEvent *ev, int priority = Qt::NormalEventPriority);
    static void quit();
    static void exit(int = 0) { quit(); }
    static int exec();
    static void processEvents();
    static void processEvents(int /*flags*/) { processEvents(); }
    static void runLocalLoopUntilIdle();            // harness: a nested QEventLoop that runs until the main queue is empty (no aboutToQuit)
    static void sendPostedEvents(VObject *receiver = nullptr, int type = 0);
    static void removePostedEvents(VObject *receiver, int type = 0);
    static bool closingDown() { return everCreated && !self; }
    static bool startingUp() { return !everCreated; }
    static bool everCreated;
    static QString applicationName() { return ::QCoreApplication::applicationName(); }
    static QString applicationVersion() { return ::QCoreApplication::applicationVersion(); }
    static QString organizationName() { return ::QCoreApplication::organizationName(); }
    static QString applicationFilePath() { return ::QCoreApplication::applicationFilePath(); }
    static qint64 applicationPid() { return ::QCoreApplication::applicationPid(); }
    void aboutToQuit() { } // signal (identity only)

    static VCoreApp *self;
    struct Ctx { VObject *ctx; std::function<void()> f; };
    std::vector<Ctx> aboutToQuitConns;
    bool m_quit = false;
};

void postCall(VThread *target, VObject *ctx, std::function<void()> f); // queued functor bound to a context object
bool alive(const VObject *o);

// QMetaObject::invokeMethod(object, functor[, type]) — the functor shapes only
struct VMetaObject : ::QMetaObject {     // derives from the real one so that Q_OBJECT's uses of QMetaObject::Call / tr() keep working
    using ::QMetaObject::invokeMethod;
    template<class F> static bool invokeMethod(VObject *ctx, F f, Qt::ConnectionType type = Qt::AutoConnection)
    {
        if (!ctx) return false;
        bool same = ctx->thread() == currentThreadObject();
        if (type == Qt::DirectConnection || (type == Qt::AutoConnection && same)) { f(); return true; }
        if (type == Qt::BlockingQueuedConnection && !same) {
            auto done = std::make_shared<bool>(false);
            vs::point("post");
            postCall(ctx->thread(), ctx, [f, done]() mutable { f(); VQT_REL(done.get()); *done = true; });
            vs::point("blocking-invoke", [done] { return *done; });
            VQT_ACQ(done.get());
            return true;
        }
        vs::point("post");
        postCall(ctx->thread(), ctx, std::function<void()>(f));
        return true;
    }
};

// ---- connect implementations
template<class S, class F> bool VObject::connect(VObject *sender, void (S::*)(), VObject *context, F functor, Qt::ConnectionType)
{
    if (!sender || !context) return false;
    std::function<void()> f;
    // the only member-slot shape in the library: connect(thread, &QThread::finished, thread, &QThread::deleteLater)
    if constexpr (std::is_member_function_pointer<F>::value) f = [context] { context->deleteLater(); };
    else f = functor;
    if (auto app = dynamic_cast<VCoreApp *>(sender)) { app->aboutToQuitConns.push_back({ context, f }); return true; }
    if (auto th = dynamic_cast<VThread *>(sender)) { th->finishedCtx.push_back({ context, f }); return true; }
    return false;
}
template<class S, class F> bool VObject::connect(VObject *sender, void (S::*)(), F functor)
{
    if (auto th = dynamic_cast<VThread *>(sender)) { th->finishedDirect.push_back(std::function<void()>(functor)); return true; }
    if (auto app = dynamic_cast<VCoreApp *>(sender)) { app->aboutToQuitConns.push_back({ app, std::function<void()>(functor) }); return true; }
    return false;
}

} // namespace vqt
