// Force-included (-include) into the translation units that contain the library's concurrency (logger.cpp, configure.cpp and the
// harness, which instantiates ownthreadhandler.h). All Qt headers are included FIRST, so their include guards are set and they are
// unaffected; afterwards the Qt threading names are bound to the vqt model. The library sources themselves are unchanged.
#pragma once
#include <QtCore>
#include "vqt.h"
#define QMutex vqt::VMutex
#define QRecursiveMutex vqt::VRecursiveMutex
#define QMutexLocker vqt::VMutexLocker
#define QThread vqt::VThread
#define QCoreApplication vqt::VCoreApp
#undef qApp
#define qApp (vqt::VCoreApp::instance())
#define QObject vqt::VObject
#define QPointer vqt::VPointer
#define QAtomicInt vqt::VAtomicInt
#define QAtomicPointer vqt::VAtomicPointer
#define QAtomicInteger vqt::VAtomicInteger
#define QBasicAtomicInt vqt::VAtomicInt
#define QBasicAtomicInteger vqt::VAtomicInteger
#define QBasicAtomicPointer vqt::VAtomicPointer
#define QReadWriteLock vqt::VReadWriteLock
#define QReadLocker vqt::VReadLocker
#define QWriteLocker vqt::VWriteLocker
#define QSemaphore vqt::VSemaphore
#define QWaitCondition vqt::VWaitCondition
#define QMetaObject vqt::VMetaObject
