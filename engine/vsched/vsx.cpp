// vsx: scenarios for C02 / C03 / C04 explored by vsched over the REAL ownthreadhandler.h / logger.cpp (compiled with the Qt
// threading names retargeted to vqt, see vqt_retarget.h; this TU is compiled the same way and with -fno-access-control so that
// the oracles can read lock owners and the pending counter).
//
// usage: vsx --scenario <name> [--p N] [--m N] [--backlog N] [--racer N] [--cycles N] [--glib 0|1] [--bound N] [--shard i --nshards n]
//            [--deadline-s S] [--replay c,c,c...]
#include "qtlogger/qtlogger.h"
#include "qtlogger/ownthreadhandler.h"

#include "../seqx/common.h"
#include "vsched.h"

#include <sys/time.h>
#include <algorithm>

using namespace QtLogger;

namespace {

struct Params { std::string scenario, hist; int p = 2, m = 2, backlog = 2, racer = 0, cycles = 1, glib = 1, racerAt = -1, nested = 0, fatal = 0, racerReset = 0; } P;

std::string S(long long v) { return std::to_string(v); }

// ------------------------------------------------------------------------------------------------ recording handlers
struct Delivery { int prod, idx; long long seq; int thread; std::string text; };

struct World {
    int inFlight = 0, maxInFlight = 0;
    std::vector<Delivery> a, b;         // deliveries seen by sinkA / sinkB
    long clock = 0;                     // logical clock for real-time order
    std::map<std::string, std::pair<long, long>> call; // message -> (start tick, return tick)
    bool stopBegan = false, stopReturned = false, handlerDestroyed = false;
    int workerTid = -1;
    std::vector<std::string> acceptedBeforeStop, accepted;
    std::set<int> inLogCall;            // threads that are inside a logging call of the asynchronous handler right now
    int sinkInFlight = 0;               // threads inside a sink (send or flush) right now: sinks are not thread-safe, never more than one
    bool nestedDone = false;
    std::map<std::string, std::pair<long, long>> calls; // message -> (tick when the logging call began, tick when it returned)
    int workerInSink = 0;               // > 0 while the worker thread is inside a sink (C03: nobody may have to wait for a lock it holds then)
    bool syncForever = false;           // the last stop of the scenario has returned: every later message must be handled synchronously
    int opIndex = -1;
} *W = nullptr;

// The worker is "the thread most recently started through QThread::start()" — read right after moveToOwnThread(), so the harness
// needs no access to private members of the code under test.
int lastStartedTid() { return vqt::G().lastStarted ? vqt::G().lastStarted->m_tid : -1; }

// C03 "the logging call never blocks on a sink": while the worker is inside a sink, no other thread may be parked on (or start
// waiting for) a lock the worker holds. Works on the registry of all model locks, whatever the code under test calls them.
void sinkEnter()
{
    if (W->workerTid < 0 || vs::self() != W->workerTid) return;
    W->workerInSink++;
    for (auto *l : vqt::G().locks)
        if (l->heldBy(W->workerTid) && l->waiters > 0 && !W->inLogCall.count(W->workerTid))
            vs::violation("producer-blocks-on-sink", std::string("the worker runs a sink while holding a ") + l->kind + " that another thread is waiting for");
}
void sinkExit() { if (W->workerInSink > 0 && vs::self() == W->workerTid) W->workerInSink--; }
void installContendOracle()
{
    // C03 "the logging call never blocks on a sink", polling variant: a logging call that goes to sleep while a logger thread exists is
    // waiting for that thread (the unchanged library never sleeps inside process(); only a stop does)
    vqt::G().onSleep = [] {
        if (W && W->workerTid >= 0 && W->inLogCall.count(vs::self()) && !W->stopBegan)
            vs::violation("producer-blocks-on-sink", "a logging call goes to sleep (polls) while the logger thread is running: it waits for the sinks to catch up");
    };
    vqt::G().onContend = [](vqt::LockState *l, int me) {
        // (a sink that logs itself takes the handler's lock for the moment it queues its message: waiting for THAT is waiting for another
        //  logging call, not for the sink)
        if (W && W->workerInSink > 0 && W->workerTid >= 0 && me != W->workerTid && l->heldBy(W->workerTid) && !W->inLogCall.count(W->workerTid))
            vs::violation("producer-blocks-on-sink", std::string("a thread has to wait for a ") + l->kind + " held by the worker while the worker is inside a sink");
    };
}

bool parseMsg(const QString &s, int &prod, int &idx)
{
    // "p<k>:<i>"
    auto t = s.trimmed();
    int c = t.indexOf(':');
    if (!t.startsWith('p') || c < 0) return false;
    prod = t.mid(1, c - 1).toInt(); idx = t.mid(c + 1).toInt();
    return true;
}

struct ProbeIn : Handler {
    bool process(LogMessage &) override
    {
        if (++W->inFlight > W->maxInFlight) W->maxInFlight = W->inFlight;
        if (W->inFlight > 1) vs::violation("overlap", "two threads are inside the pipeline at the same moment");
        vqt::yield("probe-in");
        return true;
    }
};
struct ProbeOut : Handler {
    bool process(LogMessage &) override { vqt::yield("probe-out"); W->inFlight--; return true; }
};
std::function<void()> g_nestedLog;      // set by a scenario: a sink that itself logs a message while it handles "p0:0" on the logger thread
void sinkOverlapEnter(const char *what)
{
    if (++W->sinkInFlight > 1) vs::violation("overlap", std::string("two threads are inside a sink at the same moment (") + what + "), or a sink was re-entered while it was handling a message");
}
struct RecSink : Sink {
    std::vector<Delivery> *out; const char *tag;
    RecSink(std::vector<Delivery> *o, const char *t) : out(o), tag(t) { }
    void send(const LogMessage &m) override
    {
        int prod = -1, idx = -1;
        parseMsg(m.message(), prod, idx);
        Delivery d { prod, idx, m.attribute(QStringLiteral("seq_number")).isValid() ? m.attribute(QStringLiteral("seq_number")).toLongLong() : -1, vs::self(), m.message().toStdString() };
        if (W->handlerDestroyed) vs::violation("delivery-after-destruction", "a sink ran after the handler object had been destroyed");
        sinkEnter();
        sinkOverlapEnter("send");
        vqt::yield(tag);                // a sink of arbitrary duration
        out->push_back(d);
        vs::progress();
        if (g_nestedLog && !W->nestedDone && d.text == "p0:0" && W->workerTid >= 0 && vs::self() == W->workerTid) { W->nestedDone = true; g_nestedLog(); }
        if (P.nested == 2 && d.text == "p0:0" && W->workerTid >= 0 && vs::self() == W->workerTid) {
            // a handler that pumps its thread's event loop: event delivery is re-entered on the logger thread (the sink counts as left meanwhile)
            W->sinkInFlight--; sinkExit();
            vqt::VCoreApp::processEvents();
            sinkEnter(); W->sinkInFlight++;
        }
        vqt::yield(tag);
        W->sinkInFlight--;
        sinkExit();
    }
    bool flush() override
    {
        sinkOverlapEnter("flush");
        vqt::yield("flush");
        W->sinkInFlight--;
        return true;
    }
};

std::string fmtDeliveries(const std::vector<Delivery> &v, bool withThread)
{
    std::string s;
    for (auto &d : v) { s += "p" + S(d.prod) + ":" + S(d.idx); if (withThread) s += "@T" + S(d.thread); s += " "; }
    return s;
}

// harness threads: the end of a producer happens-before the return of join() (announced for the race pass; the scheduler's own
// hand-offs are invisible to the detector)
char g_joinToken[256];
int spawnJ(std::function<void()> body, const char *name)
{
    return vs::spawn([body] { body(); VQT_REL(&g_joinToken[vs::self() & 255]); }, name);
}
void join(const std::vector<int> &tids)
{
    vs::point("join", [tids] { for (int t : tids) if (!vs::isFinished(t)) return false; return true; });
    for (int t : tids) VQT_ACQ(&g_joinToken[t & 255]);
}

// ------------------------------------------------------------------------------------------------ C02
// Scenario L: an installed synchronous Logger with the stateful built-ins, P producers x m messages through qDebug().
// Scenario B: the same pipeline inside a bare OwnThreadHandler<Pipeline> that is never moved to a thread.
void checkC02(const std::string &status, int p, int m, bool logger)
{
    (void)logger;
    vs::observe("A: " + fmtDeliveries(W->a, false));
    vs::observe("B: " + fmtDeliveries(W->b, false));
    if (status != "done") return;
    // exactly once per qualifying sink
    std::map<std::pair<int, int>, int> ca, cb;
    for (auto &d : W->a) ca[{ d.prod, d.idx }]++;
    for (auto &d : W->b) cb[{ d.prod, d.idx }]++;
    for (int k = 0; k < p; k++) for (int i = 0; i < m; i++) {
        if (ca[{ k, i }] != 1) vs::violation("exactly-once", "message p" + S(k) + ":" + S(i) + " reached sink A " + S(ca[{ k, i }]) + " times");
        int wantB = (k % 2 == 0) ? 1 : 0;
        if (cb[{ k, i }] != wantB) vs::violation("exactly-once", "message p" + S(k) + ":" + S(i) + " reached sink B " + S(cb[{ k, i }]) + " times, expected " + S(wantB));
    }
    // per-producer order
    for (auto *v : { &W->a, &W->b }) {
        std::map<int, int> last;
        for (auto &d : *v) { if (last.count(d.prod) && d.idx <= last[d.prod]) vs::violation("producer-order", "producer " + S(d.prod) + ": message " + S(d.idx) + " delivered after " + S(last[d.prod])); last[d.prod] = d.idx; }
    }
    // consecutive sequence numbers in delivery order
    for (size_t i = 0; i < W->a.size(); i++) if (W->a[i].seq != (long long)i) { vs::violation("seq-numbers", "sequence numbers at sink A in delivery order are not 0,1,2,..: position " + S(i) + " has " + S(W->a[i].seq)); break; }
    if (W->maxInFlight > 1) vs::violation("overlap", "in-flight count reached " + S(W->maxInFlight));
}

template<class H> void buildC02Pipeline(H &h)
{
    h.append(HandlerPtr(new ProbeIn));
    h.append(SeqNumberAttrPtr::create());
    h.append(DuplicateFilterPtr::create());
    h.append(PrettyFormatterPtr::create(false, 8));
    h.append(SinkPtr(new RecSink(&W->a, "sink-a")));
    auto sub = PipelinePtr::create(true);
    sub->append(FunctionFilterPtr::create([](const LogMessage &m) { int k = -1, i = -1; parseMsg(m.message(), k, i); return k % 2 == 0; }));
    sub->append(SinkPtr(new RecSink(&W->b, "sink-b")));
    h.append(sub);
    h.append(HandlerPtr(new ProbeOut));
}

void scenarioC02L()
{
    W = new World;
    int p = P.p, m = P.m;
    vs::atEnd = [p, m](const std::string &st) { checkC02(st, p, m, true); };
    auto *lg = new Logger;
    buildC02Pipeline(*lg);
    lg->installMessageHandler();
    std::vector<int> tids;
    for (int k = 0; k < p; k++) tids.push_back(spawnJ([k, m] {
        for (int i = 0; i < m; i++) {
            if (k == 0 && i == m - 1) {
                // the last message of producer 0 is a fatal one, entered the way Qt enters the handler (Qt's abort afterwards is not
                // part of the library): the logger flushes its sinks for it, and that must not overlap with another thread's send
                QMessageLogContext ctx("f.cpp", 1, "fn", "default");
                Logger::messageHandler(QtFatalMsg, ctx, QStringLiteral("p%1:%2").arg(k).arg(i));
            } else qDebug("p%d:%d", k, i);
        }
    }, "producer"));
    join(tids);
    Logger::restorePreviousMessageHandler();
    delete lg;
}

void scenarioC02B()
{
    W = new World;
    int p = P.p, m = P.m;
    vs::atEnd = [p, m](const std::string &st) { checkC02(st, p, m, false); };
    auto *h = new OwnThreadHandler<Pipeline>();
    buildC02Pipeline(*h);
    std::vector<int> tids;
    for (int k = 0; k < p; k++) tids.push_back(spawnJ([k, m, h] {
        for (int i = 0; i < m; i++) {
            QMessageLogContext ctx("f.cpp", 1, "fn", "cat");
            LogMessage msg(QtDebugMsg, ctx, QStringLiteral("p%1:%2").arg(k).arg(i));
            h->process(msg);
        }
    }, "producer"));
    join(tids);
    delete h;
}

// Scenario CHAIN: two own-thread-capable pipelines of the same class in synchronous mode, the second one a handler of the first AND
// fed directly by another thread: whichever way a thread comes in, no two threads may be inside the second pipeline's sink.
void scenarioC02Chain()
{
    W = new World;
    int p = P.p, m = P.m;
    vs::atEnd = [p, m](const std::string &st) {
        vs::observe("A: " + fmtDeliveries(W->a, false));
        if (st != "done") return;
        std::map<std::pair<int, int>, int> ca;
        for (auto &d : W->a) ca[{ d.prod, d.idx }]++;
        for (int k = 0; k < p; k++) for (int i = 0; i < m; i++)
            if (ca[{ k, i }] != 1) vs::violation("exactly-once", "message p" + S(k) + ":" + S(i) + " reached the inner sink " + S(ca[{ k, i }]) + " times");
        std::map<int, int> last;
        for (auto &d : W->a) { if (last.count(d.prod) && d.idx <= last[d.prod]) vs::violation("producer-order", "producer " + S(d.prod) + ": message " + S(d.idx) + " delivered after " + S(last[d.prod])); last[d.prod] = d.idx; }
    };
    auto inner = QSharedPointer<OwnThreadHandler<Pipeline>>::create();
    inner->append(SinkPtr(new RecSink(&W->a, "inner-sink")));
    auto *outer = new OwnThreadHandler<Pipeline>();
    outer->append(HandlerPtr(new ProbeIn));
    outer->append(inner);
    outer->append(HandlerPtr(new ProbeOut));
    std::vector<int> tids;
    for (int k = 0; k < p; k++) tids.push_back(spawnJ([k, m, outer, inner] {
        for (int i = 0; i < m; i++) {
            QMessageLogContext ctx("f.cpp", 1, "fn", "cat");
            LogMessage msg(QtDebugMsg, ctx, QStringLiteral("p%1:%2").arg(k).arg(i));
            if (k % 2 == 0) outer->process(msg); else inner->process(msg);    // even producers through the outer pipeline, odd ones straight into the inner one
        }
    }, "producer"));
    join(tids);
    delete outer;
}

// ------------------------------------------------------------------------------------------------ C03
struct Orig {
    QtMsgType type; QString message, fmt; std::string file, function, category; bool fileNull, functionNull, categoryNull; int line;
    QDateTime time; std::chrono::steady_clock::time_point steady; quint64 threadId; QVariantHash attrs; long start = 0, ret = 0;
    bool exact = true;                  // false: the message object is created inside the logging call; time must lie in [tLo, tHi]
    QDateTime tLo, tHi; std::chrono::steady_clock::time_point sLo, sHi;
};
struct FieldSink : Sink {
    std::map<std::string, Orig> *orig; std::vector<Delivery> *out;
    FieldSink(std::map<std::string, Orig> *o, std::vector<Delivery> *d) : orig(o), out(d) { }
    static std::string cs(const char *p) { return p ? std::string(p) : std::string(); }
    void send(const LogMessage &m) override
    {
        std::string key = m.message().toStdString();
        int prod = -1, idx = -1; parseMsg(m.message(), prod, idx);
        if (W->workerTid >= 0 && vs::self() != W->workerTid && !W->stopBegan) vs::violation("sink-on-caller-thread", "a sink ran on thread T" + S(vs::self()) + " although the handler lives on worker T" + S(W->workerTid));
        sinkEnter();
        vqt::yield("sink");
        auto it = orig->find(key);
        if (it == orig->end()) vs::violation("content", "sink received unknown message text '" + key + "'");
        else {
            const Orig &o = it->second;
            auto bad = [&](const char *f) { vs::violation(std::string("content:") + f, "message " + key + ": field '" + f + "' differs from the message handed to process()"); };
            if (m.type() != o.type) bad("type");
            if (m.line() != o.line) bad("line");
            if (cs(m.file()) != o.file) bad("file");
            if (cs(m.function()) != o.function) bad("function");
            if (cs(m.category()) != o.category) bad("category");
            if (o.exact) { if (m.time() != o.time) bad("time"); if (m.steadyTime() != o.steady) bad("steadyTime"); }
            else {
                // taken when the call was made, not when the worker got to it: inside the producer's call interval (o.tHi is set when the call returns)
                if (m.time() < o.tLo || (o.ret && m.time() > o.tHi)) bad("time");
                if (m.steadyTime() < o.sLo || (o.ret && m.steadyTime() > o.sHi)) bad("steadyTime");
            }
            if (m.threadId() != o.threadId) bad("threadId");
            if (m.formattedMessage() != (o.fmt.isNull() ? o.message : o.fmt)) bad("formattedMessage");
            if (m.isFormatted() != !o.fmt.isNull()) bad("isFormatted");
            if (m.attributes() != o.attrs) bad("attributes");
        }
        out->push_back({ prod, idx, -1, vs::self(), key });
        vs::progress();
        vqt::yield("sink");
        sinkExit();
    }
};

void scenarioC03H()
{
    W = new World;
    vqt::G().glibDispatcher = P.glib;
    int p = P.p, m = P.m;
    auto *origs = new std::map<std::string, Orig>;
    vs::atEnd = [p, m, origs](const std::string &st) {
        vs::observe("D: " + fmtDeliveries(W->a, true));
        if (st != "done") return;
        std::map<std::string, int> cnt;
        for (auto &d : W->a) cnt[d.text]++;
        for (auto &kv : *origs) if (cnt[kv.first] != 1) vs::violation("exactly-once", "message " + kv.first + " delivered " + S(cnt[kv.first]) + " times");
        std::map<int, int> last;
        for (auto &d : W->a) { if (last.count(d.prod) && d.idx <= last[d.prod]) vs::violation("producer-order", "producer " + S(d.prod) + ": message " + S(d.idx) + " delivered after " + S(last[d.prod])); last[d.prod] = d.idx; }
        // real-time order: a call that returned before another began is delivered first
        for (size_t i = 0; i < W->a.size(); i++) for (size_t j = i + 1; j < W->a.size(); j++) {
            const Orig &x = (*origs)[W->a[i].text], &y = (*origs)[W->a[j].text];
            if (y.ret && x.start && y.ret < x.start) vs::violation("real-time-order", "message " + W->a[j].text + " was accepted (call returned) before the call for " + W->a[i].text + " began, but is delivered after it");
        }
        for (auto &d : W->a) if (d.thread != W->workerTid) vs::violation("sink-on-caller-thread", "message " + d.text + " handled on T" + S(d.thread) + ", not on the worker");
    };
    auto *app = new vqt::VCoreApp();
    auto *h = new OwnThreadHandler<Pipeline>();
    h->append(SinkPtr(new FieldSink(origs, &W->a)));
    h->moveToOwnThread();
    W->workerTid = lastStartedTid();
    installContendOracle();
    std::vector<int> tids;
    for (int k = 0; k < p; k++) tids.push_back(spawnJ([k, m, h, origs] {
        // one caller-owned buffer per producer that is REUSED for every message (same address, new contents): what a binding
        // that formats source locations into a scratch buffer does. Odd messages use fresh heap strings / null pointers instead.
        char *reFile = (char *)malloc(32), *reFunc = (char *)malloc(32), *reCat = (char *)malloc(32);
        for (int i = 0; i < m; i++) {
            // caller-owned buffers, freed or overwritten (and poisoned) right after the call
            bool nulls = (k + i) % 2 == 1, reuse = !nulls;
            char *file = nulls ? nullptr : reFile, *func = nulls ? nullptr : reFunc;
            if (reuse) { snprintf(reFile, 32, "file%d%d.cpp", k, i); snprintf(reFunc, 32, "void fn%d%d()", k, i); }
            char *cat = reCat; snprintf(reCat, 32, "%s", i % 2 ? "" : ("cat" + S(k) + S(i)).c_str());
            QString text = QStringLiteral("p%1:%2").arg(k).arg(i);
            QtMsgType ty = QtMsgType((k + 2 * i) % 4);
            {
                QMessageLogContext ctx(file, 10 * k + i, func, cat);
                LogMessage msg(ty, ctx, text);
                if (i % 2 == 0) msg.setFormattedMessage(QStringLiteral("F<%1>").arg(text));
                msg.setAttribute(QStringLiteral("k"), k); msg.setAttribute(QStringLiteral("s"), QStringLiteral("v%1").arg(i));
                Orig o { ty, text, msg.isFormatted() ? msg.formattedMessage() : QString(), file ? file : "", func ? func : "", cat, !file, !func, false, 10 * k + i,
                         msg.time(), msg.steadyTime(), msg.threadId(), msg.attributes(), 0, 0 };
                o.start = ++W->clock;
                (*origs)[text.toStdString()] = o;
                W->inLogCall.insert(vs::self());
                h->process(msg);
                W->inLogCall.erase(vs::self());
                (*origs)[text.toStdString()].ret = ++W->clock;
            }
            if (file) memset(file, 'X', strlen(file));
            if (func) memset(func, 'X', strlen(func));
            memset(cat, 'X', strlen(cat));
        }
        free(reFile); free(reFunc); free(reCat);
    }, "producer"));
    join(tids);
    W->stopBegan = true;
    h->resetOwnThread();
    delete h;
    delete app;
}

// Scenario BURST: one producer logs a long burst (P.m messages, thousands) while the worker is held inside the sink for the first
// message: every logging call must return without waiting for the sink, whatever the backlog (no back-pressure that blocks callers)
void scenarioC03Burst()
{
    W = new World;
    vqt::G().glibDispatcher = P.glib;
    int m = P.m;
    auto *count = new long(0);
    vs::atEnd = [m, count](const std::string &st) {
        vs::observe("delivered " + S((long long)W->a.size()) + " of " + S(m) + ", calls returned while the sink was held: " + S(*count));
        if (st != "done") return;
        if ((int)W->a.size() != m) vs::violation("exactly-once", S((long long)W->a.size()) + " of " + S(m) + " messages delivered");
        for (size_t i = 0; i < W->a.size(); i++) if (W->a[i].idx != (int)i) { vs::violation("producer-order", "burst delivered out of order at position " + S((long long)i)); break; }
    };
    auto *app = new vqt::VCoreApp();
    auto *h = new OwnThreadHandler<Pipeline>();
    h->append(SinkPtr(new RecSink(&W->a, "sink")));
    h->moveToOwnThread();
    W->workerTid = lastStartedTid();
    installContendOracle();
    std::vector<int> tids;
    tids.push_back(spawnJ([m, h, count] {
        for (int i = 0; i < m; i++) {
            QMessageLogContext ctx("f.cpp", 1, "fn", "cat");
            LogMessage msg(QtDebugMsg, ctx, QStringLiteral("p0:%1").arg(i));
            W->inLogCall.insert(vs::self());
            h->process(msg);
            W->inLogCall.erase(vs::self());
            if (W->workerInSink > 0) (*count)++;
        }
    }, "producer"));
    join(tids);
    W->stopBegan = true;
    h->resetOwnThread();
    delete h;
    delete app;
}

// Scenario G: the same through a Logger moved to its own thread, entered the way Qt enters it (processMessage with the caller's
// QMessageLogContext), all five message types. The message object is created inside the call, so time/steady time are checked
// against the producer's call interval and the thread id against the producer's.
void scenarioC03G()
{
    W = new World;
    vqt::G().glibDispatcher = P.glib;
    int p = P.p, m = P.m;
    auto *origs = new std::map<std::string, Orig>;
    vs::atEnd = [p, m, origs](const std::string &st) {
        vs::observe("D: " + fmtDeliveries(W->a, true));
        if (st != "done") return;
        std::map<std::string, int> cnt;
        for (auto &d : W->a) cnt[d.text]++;
        for (auto &kv : *origs) if (cnt[kv.first] != 1) vs::violation("exactly-once", "message " + kv.first + " delivered " + S(cnt[kv.first]) + " times");
        std::map<int, int> last;
        for (auto &d : W->a) { if (last.count(d.prod) && d.idx <= last[d.prod]) vs::violation("producer-order", "producer " + S(d.prod) + ": message " + S(d.idx) + " delivered after " + S(last[d.prod])); last[d.prod] = d.idx; }
        for (size_t i = 0; i < W->a.size(); i++) for (size_t j = i + 1; j < W->a.size(); j++) {
            const Orig &x = (*origs)[W->a[i].text], &y = (*origs)[W->a[j].text];
            if (y.ret && x.start && y.ret < x.start) vs::violation("real-time-order", "message " + W->a[j].text + " was accepted (call returned) before the call for " + W->a[i].text + " began, but is delivered after it");
        }
        for (auto &d : W->a) if (d.thread != W->workerTid) vs::violation("sink-on-caller-thread", "message " + d.text + " handled on T" + S(d.thread) + ", not on the worker");
    };
    auto *app = new vqt::VCoreApp();
    auto *lg = new Logger;
    lg->append(SinkPtr(new FieldSink(origs, &W->a)));
    lg->moveToOwnThread();
    W->workerTid = lastStartedTid();
    installContendOracle();
    std::vector<int> tids;
    for (int k = 0; k < p; k++) tids.push_back(spawnJ([k, m, lg, origs] {
        char *reFile = (char *)malloc(32), *reFunc = (char *)malloc(32), *reCat = (char *)malloc(32);
        for (int i = 0; i < m; i++) {
            bool nulls = (k + i) % 3 == 2;
            char *file = nulls ? nullptr : reFile, *func = nulls ? nullptr : reFunc;
            if (!nulls) { snprintf(reFile, 32, "file%d%d.cpp", k, i); snprintf(reFunc, 32, "void fn%d%d()", k, i); }
            snprintf(reCat, 32, "%s", i % 2 ? "default" : ("cat" + S(k) + S(i)).c_str());
            QString text = QStringLiteral("p%1:%2").arg(k).arg(i);
            QtMsgType ty = QtMsgType(4 - ((k + 2 * i) % 5));     // fatal, info? ... every type occurs; QtFatalMsg = 3 first for p0:0
            {
                QMessageLogContext ctx(file, 10 * k + i, func, reCat);
                Orig o { ty, text, QString(), file ? file : "", func ? func : "", reCat, !file, !func, false, 10 * k + i,
                         QDateTime(), {}, (quint64)reinterpret_cast<quintptr>(::QThread::currentThreadId()), QVariantHash(), 0, 0 };
                o.exact = false; o.tLo = QDateTime::currentDateTime(); o.sLo = std::chrono::steady_clock::now();
                o.start = ++W->clock;
                (*origs)[text.toStdString()] = o;
                W->inLogCall.insert(vs::self());
                lg->processMessage(ty, ctx, text);
                W->inLogCall.erase(vs::self());
                Orig &r = (*origs)[text.toStdString()];
                r.tHi = QDateTime::currentDateTime(); r.sHi = std::chrono::steady_clock::now();
                r.ret = ++W->clock;
            }
            if (file) memset(file, 'X', strlen(file));
            if (func) memset(func, 'X', strlen(func));
            memset(reCat, 'X', strlen(reCat));
        }
        free(reFile); free(reFunc); free(reCat);
    }, "producer"));
    join(tids);
    W->stopBegan = true;
    lg->resetOwnThread();
    delete lg;
    delete app;
}

// ------------------------------------------------------------------------------------------------ C04
// paths: 1 = QCoreApplication::exec() returns -> aboutToQuit; 2 = explicit resetOwnThread(); 3 = destructor, application alive;
//        4 = destructor after the application object was destroyed, exec() never ran; 5 = as 4 but exec() ran (and returned) before
template<class H> void scenarioC04(int path)
{
    W = new World;
    vqt::G().glibDispatcher = P.glib;
    int backlog = P.backlog, racer = (path <= 2) ? P.racer : 0, cycles = P.cycles;
    auto *sent = new std::vector<std::string>;
    vs::atEnd = [sent, path](const std::string &st) {
        vs::observe("D: " + fmtDeliveries(W->a, true));
        vs::observe(std::string("stop-returned=") + (W->stopReturned ? "1" : "0"));
        if (st == "livelock" || st == "deadlock") vs::violation(std::string("stop-hangs:") + st + (vqt::VCoreApp::self ? "" : ":app-gone"), "stopping asynchronous logging never returns (" + st + ") on path " + S(path) + "; " + S((long long)W->a.size()) + " of " + S((long long)sent->size()) + " accepted messages delivered");
        if (st != "done") return;
        std::map<std::string, int> cnt;
        for (auto &d : W->a) cnt[d.text]++;
        for (auto &s : *sent) if (cnt[s] != 1) vs::violation(cnt[s] ? "duplicate" : "lost", "message " + s + " was accepted but delivered " + S(cnt[s]) + " times (path " + S(path) + ")");
    };
    auto *app = new vqt::VCoreApp();
    auto *h = new H();
    h->append(SinkPtr(new RecSink(&W->a, "sink")));
    int racerTid = -1;
    int seq = 0;
    for (int c = 0; c < cycles; c++) {
        h->moveToOwnThread();
        W->workerTid = lastStartedTid();
        W->stopBegan = W->stopReturned = false;
        std::vector<std::string> before;
        for (int i = 0; i < backlog; i++) {
            QMessageLogContext ctx("f.cpp", 1, "fn", "cat");
            QString text = QStringLiteral("p0:%1").arg(seq++);
            LogMessage msg(QtDebugMsg, ctx, text);
            h->process(msg);
            sent->push_back(text.toStdString()); before.push_back(text.toStdString());
        }
        if (racer > 0 && c == 0) racerTid = spawnJ([racer, h, sent] {
            for (int i = 0; i < racer; i++) {
                QMessageLogContext ctx("f.cpp", 1, "fn", "cat");
                QString text = QStringLiteral("p1:%1").arg(i);
                LogMessage msg(QtInfoMsg, ctx, text);
                bool stopped = P.cycles == 1 && W->stopReturned && W->workerTid < 0; // with several cycles a new worker may appear meanwhile
                h->process(msg);
                sent->push_back(text.toStdString());
                if (stopped) { // logged after the stop had completed: must have been handled synchronously, on this thread, before process() returned
                    bool ok = false;
                    for (auto &d : W->a) if (d.text == text.toStdString() && d.thread == vs::self()) ok = true;
                    if (!ok) vs::violation("late-not-synchronous", "message " + text.toStdString() + " logged after the stop was not delivered synchronously on the caller's thread");
                }
            }
        }, "racer");
        auto afterStop = [&] {
            W->stopReturned = true; W->workerTid = -1;
            for (auto &s : before) { bool ok = false; for (auto &d : W->a) if (d.text == s) ok = true; if (!ok) vs::violation("stop-before-drained", "the stop returned before message " + s + " (accepted before the stop began) was delivered (path " + S(path) + ")"); }
        };
        W->stopBegan = true;
        if (path == 1) {
            vqt::VCoreApp::quit();
            vqt::VCoreApp::exec();         // returns at once, emits aboutToQuit -> resetOwnThread()
            afterStop();
        } else if (path == 2) {
            h->resetOwnThread();
            afterStop();
        } else break;
    }
    if (path == 5) { vqt::VCoreApp::quit(); vqt::VCoreApp::exec(); /* aboutToQuit stops the logger; then everything is torn down */ }
    if (racerTid >= 0) join({ racerTid });
    if (path == 4 || path == 5) { delete app; app = nullptr; }
    W->stopBegan = true;
    {
        std::vector<std::string> before = *sent;
        delete h;
        W->handlerDestroyed = true; W->stopReturned = true;
        for (auto &s : before) { bool ok = false; for (auto &d : W->a) if (d.text == s) ok = true; if (!ok) vs::violation("stop-before-drained", "the destructor returned before message " + s + " was delivered (path " + S(path) + ")"); }
    }
    delete app;
}

// ------------------------------------------------------------------------------------------------ C04, lifecycle histories
// A history is a string of operations performed by the main thread on ONE handler object; every history ends with the
// destruction of the handler (and of the application object if one exists). Not only "start, log, stop" from the initial
// state, but every order of creating/destroying the application object, moving, logging, resetting, quitting and running the
// event loop up to a length bound:
//   A create the QCoreApplication      a destroy it             M moveToOwnThread()       L log one message (main thread)
//   R resetOwnThread()                 X quit() + exec(): the loop runs, returns, aboutToQuit is emitted
//   E a nested event loop runs until the main queue is empty (deferred deletes happen, no aboutToQuit)
// An optional racing producer logs P.racer messages, started when the main thread reaches operation P.racerAt.
template<class H> void logOne(H *h, QtMsgType ty, const QString &text)
{
    QMessageLogContext ctx("f.cpp", 1, "fn", "cat");
    bool outer = W->inLogCall.insert(vs::self()).second;
    if constexpr (std::is_same<H, Logger>::value) h->processMessage(ty, ctx, text);
    else { LogMessage msg(ty, ctx, text); h->process(msg); }
    if (outer) W->inLogCall.erase(vs::self());
}

template<class H> void scenarioC04X()
{
    W = new World;
    vqt::G().glibDispatcher = P.glib;
    const std::string hist = P.hist;
    auto *sent = new std::vector<std::string>;      // accepted = the logging call has returned
    vs::atEnd = [sent, hist](const std::string &st) {
        vs::observe("D: " + fmtDeliveries(W->a, true));
        if (st == "livelock" || st == "deadlock") {
            char op = (W->opIndex >= 0 && W->opIndex < (int)hist.size()) ? hist[W->opIndex] : 'D';
            vs::violation(std::string("stop-hangs:") + st + ":op-" + op + (vqt::VCoreApp::self ? "" : ":no-app"),
                          "history " + hist + ": operation '" + std::string(1, op) + "' (index " + S(W->opIndex) + ") never returns (" + st + "); " + S((long long)W->a.size()) + " of " + S((long long)sent->size()) + " accepted messages delivered");
        }
        if (st != "done") return;
        std::map<std::string, int> cnt;
        for (auto &d : W->a) cnt[d.text]++;
        for (auto &s : *sent) if (cnt[s] != 1) vs::violation(cnt[s] ? "duplicate" : "lost", "history " + hist + ": message " + s + " was accepted but delivered " + S(cnt[s]) + " times");
        for (auto &kv : cnt) if (std::find(sent->begin(), sent->end(), kv.first) == sent->end()) vs::violation("phantom", "history " + hist + ": message " + kv.first + " delivered but never logged");
        // per-thread order
        std::map<int, int> last;
        for (auto &d : W->a) { if (last.count(d.prod) && d.idx <= last[d.prod]) vs::violation("producer-order", "history " + hist + ": producer " + S(d.prod) + " message " + S(d.idx) + " delivered after " + S(last[d.prod])); last[d.prod] = d.idx; }
        // first-in-first-out across threads: a logging call that returned before another began is delivered first
        for (size_t i = 0; i < W->a.size(); i++) for (size_t j = i + 1; j < W->a.size(); j++) {
            auto x = W->calls.find(W->a[i].text), y = W->calls.find(W->a[j].text);
            if (x == W->calls.end() || y == W->calls.end()) continue;
            if (y->second.second && x->second.first && y->second.second < x->second.first)
                vs::violation("real-time-order", "history " + hist + ": the call for " + W->a[j].text + " returned before the call for " + W->a[i].text + " began, but " + W->a[i].text + " is delivered first");
        }
    };
    vqt::VCoreApp *app = nullptr;
    auto *h = new H();
    installContendOracle();
    if (P.nested == 1) g_nestedLog = [h, sent] {
        QString text = QStringLiteral("p2:0");
        W->calls[text.toStdString()].first = ++W->clock;
        logOne(h, QtWarningMsg, text);
        W->calls[text.toStdString()].second = ++W->clock;
        sent->push_back(text.toStdString());
    };
    else g_nestedLog = nullptr;
    h->append(SinkPtr(new RecSink(&W->a, "sink")));
    bool async = false, stopOnQuit = false;
    int seq = 0, racerTid = -1;
    size_t lastMove = hist.rfind('M');
    auto delivered = [&](const std::string &t, int onThread = -1) { for (auto &d : W->a) if (d.text == t && (onThread < 0 || d.thread == onThread)) return true; return false; };
    auto afterStop = [&](const char *what, size_t i, const std::vector<std::string> &before) {
        if (W->workerTid >= 0 && !vs::isFinished(W->workerTid))
            vs::violation(std::string("stop-leaves-thread-running:") + what, "history " + hist + ": " + what + " (index " + S((long long)i) + ") returned but the logger thread is still running: asynchronous logging was not stopped");
        async = false; W->workerTid = -1; W->stopReturned = true;
        if (lastMove == std::string::npos || i > lastMove) W->syncForever = true;
        for (auto &s : before) if (!delivered(s)) vs::violation(std::string("stop-before-drained:") + what, "history " + hist + ": " + what + " (index " + S((long long)i) + ") returned before message " + s + ", accepted before it began, was delivered");
    };
    for (size_t i = 0; i < hist.size(); i++) {
        W->opIndex = (int)i;
        vs::progress();
        if ((int)i == P.racerAt && P.racer > 0) {
            int n = P.racer;
            if (P.racerReset) racerTid = spawnJ([h] {
                // a SECOND thread stops the logger at the same time (an explicit reset racing with aboutToQuit / the main thread's reset)
                h->resetOwnThread();
            }, "second-stopper");
            else racerTid = spawnJ([n, h, sent] {
                for (int k = 0; k < n; k++) {
                    QString text = QStringLiteral("p1:%1").arg(k);
                    bool mustBeSync = W->syncForever;   // the last stop had returned before this call began
                    W->calls[text.toStdString()].first = ++W->clock;
                    logOne(h, QtInfoMsg, text);
                    W->calls[text.toStdString()].second = ++W->clock;
                    sent->push_back(text.toStdString());
                    if (mustBeSync) {
                        bool ok = false;
                        for (auto &d : W->a) if (d.text == text.toStdString() && d.thread == vs::self()) ok = true;
                        if (!ok) vs::violation("late-not-synchronous", "message " + text.toStdString() + " logged after the last stop had returned was not handled synchronously on the caller's thread");
                    }
                }
            }, "racer");
        }
        switch (hist[i]) {
        case 'A': if (!app) app = new vqt::VCoreApp(); break;
        case 'a': if (app) { delete app; app = nullptr; stopOnQuit = false; } break;
        case 'M':
            h->moveToOwnThread();
            if (!async) { async = true; W->workerTid = lastStartedTid(); stopOnQuit = app != nullptr; W->stopReturned = false; W->syncForever = false; }
            break;
        case 'L': {
            QString text = QStringLiteral("p0:%1").arg(seq++);
            bool wasAsync = async;
            W->calls[text.toStdString()].first = ++W->clock;
            logOne(h, (seq % 2) ? QtDebugMsg : QtWarningMsg, text);
            W->calls[text.toStdString()].second = ++W->clock;
            sent->push_back(text.toStdString());
            if (!wasAsync && !delivered(text.toStdString(), vs::self()))
                vs::violation("sync-not-delivered", "history " + hist + ": message " + text.toStdString() + " logged while no logger thread exists was not handled on the caller's thread before the call returned");
            break; }
        case 'R': { auto before = *sent; W->stopBegan = true; h->resetOwnThread(); afterStop("resetOwnThread()", i, before); break; }
        case 'X':
            if (app) {
                auto before = *sent; bool stops = async && stopOnQuit;
                if (stops) W->stopBegan = true;
                vqt::VCoreApp::quit(); vqt::VCoreApp::exec();
                if (stops) afterStop("application quit (aboutToQuit)", i, before);
            }
            break;
        case 'E': if (app) vqt::VCoreApp::runLocalLoopUntilIdle(); break;
        default: break;
        }
    }
    W->opIndex = (int)hist.size();
    if (racerTid >= 0) join({ racerTid });       // calling into an object while its destructor runs is the caller's bug: the racer is done before D
    {
        auto before = *sent;
        W->stopBegan = true;
        delete h;
        W->handlerDestroyed = true; W->stopReturned = true;
        for (auto &s : before) if (!delivered(s)) vs::violation("stop-before-drained:destructor", "history " + hist + ": the destructor returned before message " + s + " was delivered");
    }
    if (app) { vqt::VCoreApp::processEvents(); delete app; }
}

} // namespace

int main(int argc, char **argv)
{
    P.scenario = vx::argStr(argc, argv, "--scenario", "c02l");
    P.p = vx::argInt(argc, argv, "--p", 2); P.m = vx::argInt(argc, argv, "--m", 2);
    P.backlog = vx::argInt(argc, argv, "--backlog", 2); P.racer = vx::argInt(argc, argv, "--racer", 0);
    P.cycles = vx::argInt(argc, argv, "--cycles", 1); P.glib = vx::argInt(argc, argv, "--glib", 1);
    P.hist = vx::argStr(argc, argv, "--hist", ""); P.racerAt = vx::argInt(argc, argv, "--racer-at", -1); P.nested = vx::argInt(argc, argv, "--nested", 0); P.racerReset = vx::argInt(argc, argv, "--racer-reset", 0);
    const char *histsFile = vx::argStr(argc, argv, "--hists-file", nullptr);
    vs::Options o;
    o.bound = vx::argInt(argc, argv, "--bound", 2);
    o.shard = vx::argInt(argc, argv, "--shard", 0); o.nshards = vx::argInt(argc, argv, "--nshards", 1);
    int dl = vx::argInt(argc, argv, "--deadline-s", 0);
    if (dl > 0) { struct timeval tv; gettimeofday(&tv, nullptr); o.deadline = tv.tv_sec + dl; }
    // --deadline-at: one absolute deadline (seconds since the epoch) shared by every shard of every scenario of a check, so that the
    // whole check - not each shard on its own - ends in bounded time; a shard that starts after it explores its default schedule only
    { long long at = atoll(vx::argStr(argc, argv, "--deadline-at", "0")); if (at > 0 && (double)at < o.deadline) o.deadline = (double)at; }
    const char *rp = vx::argStr(argc, argv, "--replay", nullptr);
    if (rp) { for (auto &c : QString::fromLatin1(rp).split(',', Qt::SkipEmptyParts)) o.replayChoices.push_back(c.toInt()); o.verbose = true; }
    std::function<void()> body;
    const std::string &s = P.scenario;
    if (s == "c02l") body = scenarioC02L;
    else if (s == "c02b") body = scenarioC02B;
    else if (s == "c02chain") body = scenarioC02Chain;
    else if (s == "c03h") body = scenarioC03H;
    else if (s == "c03g") body = scenarioC03G;
    else if (s == "c03burst") { body = scenarioC03Burst; o.stepLimit = 2000000; }
    else if (s == "c04xh") body = [] { scenarioC04X<OwnThreadHandler<Pipeline>>(); };
    else if (s == "c04xl") body = [] { scenarioC04X<Logger>(); };
    else if (s.compare(0, 4, "c04h") == 0) { int path = atoi(s.c_str() + 4); body = [path] { scenarioC04<OwnThreadHandler<Pipeline>>(path); }; }
    else if (s.compare(0, 4, "c04l") == 0) { int path = atoi(s.c_str() + 4); body = [path] { scenarioC04<Logger>(path); }; }
    else { fprintf(stderr, "unknown scenario\n"); return 3; }

    vx::Summary sum;
    auto account = [&](const vs::Result &R, const std::string &label) {
        sum.cases += R.executions; sum.states += R.executions; sum.transitions += R.steps; sum.replays_ok += R.replaysOk;
        sum.exhaustive = sum.exhaustive && R.exhaustive;
        for (auto &x : R.outcomes) sum.outcomes.insert(x);
        sum.counters["deadlocks"] += R.deadlocks; sum.counters["livelocks"] += R.livelocks; sum.counters["blocked_lock_events"] += R.blockedLockEvents;
        std::string pj = "\"scenario\":" + vx::jstr(s) + ",\"p\":" + S(P.p) + ",\"m\":" + S(P.m) + ",\"backlog\":" + S(P.backlog) + ",\"racer\":" + S(P.racer) + ",\"cycles\":" + S(P.cycles) + ",\"glib\":" + S(P.glib)
            + ",\"hist\":" + vx::jstr(P.hist) + ",\"racer-at\":" + S(P.racerAt) + ",\"nested\":" + S(P.nested) + ",\"racer-reset\":" + S(P.racerReset);
        for (auto &v : R.violations) {
            std::string c; for (size_t i = 0; i < v.choices.size(); i++) c += (i ? "," : "") + S(v.choices[i]);
            sum.violate(s + ":" + v.key, "[" + label + "] " + v.what + " | observations: " + v.report, "{" + pj + ",\"choices\":" + vx::jstr(c) + "}");
        }
        sum.violationCount += R.violationCount - (long long)R.violations.size();   // violate() counted the listed ones
        for (auto &x : R.samples) sum.sample(vx::jstr(x), 3);
        if (o.verbose) for (auto &x : R.outcomes) fprintf(stderr, "OUTCOME: %s\n", x.c_str());
    };
    if (histsFile) {
        // one exploration per history of the file (lines "<hist> [racerAt racer]"); histories are dealt out to the shards
        FILE *f = fopen(histsFile, "r");
        if (!f) { fprintf(stderr, "cannot read %s\n", histsFile); return 3; }
        char line[256]; long idx = 0; long done = 0;
        int shard = o.shard, nshards = o.nshards;
        o.shard = 0; o.nshards = 1;
        while (fgets(line, sizeof line, f)) {
            char hb[128]; int ra = -1, rn = 0;
            int n = sscanf(line, "%127s %d %d", hb, &ra, &rn);
            if (n < 1) continue;
            if ((idx++ % nshards) != shard) continue;
            struct timeval tv; gettimeofday(&tv, nullptr);
            if (tv.tv_sec > o.deadline) { sum.exhaustive = false; break; }
            P.hist = hb; P.racerAt = n >= 3 ? ra : -1; P.racer = n >= 3 ? rn : 0;
            vs::Result R = vs::explore(body, o);
            if (!R.engineError.empty()) { fprintf(stderr, "ENGINE: history %s: %s\n", hb, R.engineError.c_str()); return 3; }
            account(R, "history " + P.hist + (P.racer ? " racer@" + S(P.racerAt) : "") + " glib=" + S(P.glib) + " deviations<=" + S(o.bound));
            done++;
        }
        fclose(f);
        sum.counters["histories"] = done;
        sum.bound = "scenario " + s + " histories from file, glib=" + S(P.glib) + " deviations<=" + S(o.bound);
        sum.print();
        return 0;
    }
    vs::Result R = vs::explore(body, o);
    sum.bound = "scenario " + s + " p=" + S(P.p) + " m=" + S(P.m) + " backlog=" + S(P.backlog) + " racer=" + S(P.racer) + " cycles=" + S(P.cycles) + " glib=" + S(P.glib) + (P.hist.empty() ? "" : " hist=" + P.hist) + " deviations<=" + S(o.bound);
    if (!R.engineError.empty()) { fprintf(stderr, "ENGINE: %s\n", R.engineError.c_str()); return 3; }
    account(R, sum.bound);
    sum.print();
    return 0;
}
