// vsx: scenarios for C02 / C03 / C04 explored by vsched over the REAL ownthreadhandler.h / logger.cpp (compiled with the Qt
// threading names retargeted to vqt, see vqt_retarget.h; this TU is compiled the same way and with -fno-access-control so that
// the oracles can read lock owners and the pending counter).
//
// usage: vsx --scenario <name> [--p N] [--m N] [--backlog N] [--racer N] [--cycles N] [--glib 0|1] [--bound N] [--shard i --nshards n]
//            [--deadline-s S] [--replay c,c,c...]
#include "qtlogger/qtlogger.h"
#include "qtlogger/ownthreadhandler.h"

#include "../seqx/common.h"
#include "vsched.h"

#include <sys/time.h>

using namespace QtLogger;

namespace {

struct Params { std::string scenario; int p = 2, m = 2, backlog = 2, racer = 0, cycles = 1, glib = 1; } P;

std::string S(long long v) { return std::to_string(v); }

// ------------------------------------------------------------------------------------------------ recording handlers
struct Delivery { int prod, idx; long long seq; int thread; std::string text; };

struct World {
    int inFlight = 0, maxInFlight = 0;
    std::vector<Delivery> a, b;         // deliveries seen by sinkA / sinkB
    long clock = 0;                     // logical clock for real-time order
    std::map<std::string, std::pair<long, long>> call; // message -> (start tick, return tick)
    bool stopBegan = false, stopReturned = false, handlerDestroyed = false;
    int workerTid = -1;
    std::vector<std::string> acceptedBeforeStop, accepted;
    vqt::VMutex *watchMutex = nullptr;  // handler mutex: must not be held by the worker while a sink runs (C03)
} *W = nullptr;

bool parseMsg(const QString &s, int &prod, int &idx)
{
    // "p<k>:<i>"
    auto t = s.trimmed();
    int c = t.indexOf(':');
    if (!t.startsWith('p') || c < 0) return false;
    prod = t.mid(1, c - 1).toInt(); idx = t.mid(c + 1).toInt();
    return true;
}

struct ProbeIn : Handler {
    bool process(LogMessage &) override
    {
        if (++W->inFlight > W->maxInFlight) W->maxInFlight = W->inFlight;
        if (W->inFlight > 1) vs::violation("overlap", "two threads are inside the pipeline at the same moment");
        vqt::yield("probe-in");
        return true;
    }
};
struct ProbeOut : Handler {
    bool process(LogMessage &) override { vqt::yield("probe-out"); W->inFlight--; return true; }
};
struct RecSink : Sink {
    std::vector<Delivery> *out; const char *tag;
    RecSink(std::vector<Delivery> *o, const char *t) : out(o), tag(t) { }
    void send(const LogMessage &m) override
    {
        int prod = -1, idx = -1;
        parseMsg(m.message(), prod, idx);
        Delivery d { prod, idx, m.attribute(QStringLiteral("seq_number")).isValid() ? m.attribute(QStringLiteral("seq_number")).toLongLong() : -1, vs::self(), m.message().toStdString() };
        if (W->handlerDestroyed) vs::violation("delivery-after-destruction", "a sink ran after the handler object had been destroyed");
        if (W->watchMutex && W->workerTid >= 0 && vs::self() == W->workerTid && W->watchMutex->owner() == W->workerTid)
            vs::violation("producer-blocks-on-sink", "the worker runs a sink while holding the handler mutex that every logging call needs");
        vqt::yield(tag);                // a sink of arbitrary duration
        out->push_back(d);
        vqt::yield(tag);
    }
};

std::string fmtDeliveries(const std::vector<Delivery> &v, bool withThread)
{
    std::string s;
    for (auto &d : v) { s += "p" + S(d.prod) + ":" + S(d.idx); if (withThread) s += "@T" + S(d.thread); s += " "; }
    return s;
}

void join(const std::vector<int> &tids)
{
    vs::point("join", [tids] { for (int t : tids) if (!vs::isFinished(t)) return false; return true; });
}

// ------------------------------------------------------------------------------------------------ C02
// Scenario L: an installed synchronous Logger with the stateful built-ins, P producers x m messages through qDebug().
// Scenario B: the same pipeline inside a bare OwnThreadHandler<Pipeline> that is never moved to a thread.
void checkC02(const std::string &status, int p, int m, bool logger)
{
    (void)logger;
    vs::observe("A: " + fmtDeliveries(W->a, false));
    vs::observe("B: " + fmtDeliveries(W->b, false));
    if (status != "done") return;
    // exactly once per qualifying sink
    std::map<std::pair<int, int>, int> ca, cb;
    for (auto &d : W->a) ca[{ d.prod, d.idx }]++;
    for (auto &d : W->b) cb[{ d.prod, d.idx }]++;
    for (int k = 0; k < p; k++) for (int i = 0; i < m; i++) {
        if (ca[{ k, i }] != 1) vs::violation("exactly-once", "message p" + S(k) + ":" + S(i) + " reached sink A " + S(ca[{ k, i }]) + " times");
        int wantB = (k % 2 == 0) ? 1 : 0;
        if (cb[{ k, i }] != wantB) vs::violation("exactly-once", "message p" + S(k) + ":" + S(i) + " reached sink B " + S(cb[{ k, i }]) + " times, expected " + S(wantB));
    }
    // per-producer order
    for (auto *v : { &W->a, &W->b }) {
        std::map<int, int> last;
        for (auto &d : *v) { if (last.count(d.prod) && d.idx <= last[d.prod]) vs::violation("producer-order", "producer " + S(d.prod) + ": message " + S(d.idx) + " delivered after " + S(last[d.prod])); last[d.prod] = d.idx; }
    }
    // consecutive sequence numbers in delivery order
    for (size_t i = 0; i < W->a.size(); i++) if (W->a[i].seq != (long long)i) { vs::violation("seq-numbers", "sequence numbers at sink A in delivery order are not 0,1,2,..: position " + S(i) + " has " + S(W->a[i].seq)); break; }
    if (W->maxInFlight > 1) vs::violation("overlap", "in-flight count reached " + S(W->maxInFlight));
}

template<class H> void buildC02Pipeline(H &h)
{
    h.append(HandlerPtr(new ProbeIn));
    h.append(SeqNumberAttrPtr::create());
    h.append(DuplicateFilterPtr::create());
    h.append(PrettyFormatterPtr::create(false, 8));
    h.append(SinkPtr(new RecSink(&W->a, "sink-a")));
    auto sub = PipelinePtr::create(true);
    sub->append(FunctionFilterPtr::create([](const LogMessage &m) { int k = -1, i = -1; parseMsg(m.message(), k, i); return k % 2 == 0; }));
    sub->append(SinkPtr(new RecSink(&W->b, "sink-b")));
    h.append(sub);
    h.append(HandlerPtr(new ProbeOut));
}

void scenarioC02L()
{
    W = new World;
    int p = P.p, m = P.m;
    vs::atEnd = [p, m](const std::string &st) { checkC02(st, p, m, true); };
    auto *lg = new Logger;
    buildC02Pipeline(*lg);
    lg->installMessageHandler();
    std::vector<int> tids;
    for (int k = 0; k < p; k++) tids.push_back(vs::spawn([k, m] { for (int i = 0; i < m; i++) qDebug("p%d:%d", k, i); }, "producer"));
    join(tids);
    Logger::restorePreviousMessageHandler();
    delete lg;
}

void scenarioC02B()
{
    W = new World;
    int p = P.p, m = P.m;
    vs::atEnd = [p, m](const std::string &st) { checkC02(st, p, m, false); };
    auto *h = new OwnThreadHandler<Pipeline>();
    buildC02Pipeline(*h);
    std::vector<int> tids;
    for (int k = 0; k < p; k++) tids.push_back(vs::spawn([k, m, h] {
        for (int i = 0; i < m; i++) {
            QMessageLogContext ctx("f.cpp", 1, "fn", "cat");
            LogMessage msg(QtDebugMsg, ctx, QStringLiteral("p%1:%2").arg(k).arg(i));
            h->process(msg);
        }
    }, "producer"));
    join(tids);
    delete h;
}

// ------------------------------------------------------------------------------------------------ C03
struct Orig {
    QtMsgType type; QString message, fmt; std::string file, function, category; bool fileNull, functionNull, categoryNull; int line;
    QDateTime time; std::chrono::steady_clock::time_point steady; quint64 threadId; QVariantHash attrs; long start = 0, ret = 0;
};
struct FieldSink : Sink {
    std::map<std::string, Orig> *orig; std::vector<Delivery> *out;
    FieldSink(std::map<std::string, Orig> *o, std::vector<Delivery> *d) : orig(o), out(d) { }
    static std::string cs(const char *p) { return p ? std::string(p) : std::string(); }
    void send(const LogMessage &m) override
    {
        std::string key = m.message().toStdString();
        int prod = -1, idx = -1; parseMsg(m.message(), prod, idx);
        if (W->workerTid >= 0 && vs::self() != W->workerTid && !W->stopBegan) vs::violation("sink-on-caller-thread", "a sink ran on thread T" + S(vs::self()) + " although the handler lives on worker T" + S(W->workerTid));
        if (W->watchMutex && vs::self() == W->workerTid && W->watchMutex->owner() == W->workerTid)
            vs::violation("producer-blocks-on-sink", "the worker runs a sink while holding the handler mutex that every logging call needs");
        vqt::yield("sink");
        auto it = orig->find(key);
        if (it == orig->end()) vs::violation("content", "sink received unknown message text '" + key + "'");
        else {
            const Orig &o = it->second;
            auto bad = [&](const char *f) { vs::violation(std::string("content:") + f, "message " + key + ": field '" + f + "' differs from the message handed to process()"); };
            if (m.type() != o.type) bad("type");
            if (m.line() != o.line) bad("line");
            if (cs(m.file()) != o.file) bad("file");
            if (cs(m.function()) != o.function) bad("function");
            if (cs(m.category()) != o.category) bad("category");
            if (m.time() != o.time) bad("time");
            if (m.steadyTime() != o.steady) bad("steadyTime");
            if (m.threadId() != o.threadId) bad("threadId");
            if (m.formattedMessage() != (o.fmt.isNull() ? o.message : o.fmt)) bad("formattedMessage");
            if (m.isFormatted() != !o.fmt.isNull()) bad("isFormatted");
            if (m.attributes() != o.attrs) bad("attributes");
        }
        out->push_back({ prod, idx, -1, vs::self(), key });
        vqt::yield("sink");
    }
};

void scenarioC03H()
{
    W = new World;
    vqt::G().glibDispatcher = P.glib;
    int p = P.p, m = P.m;
    auto *origs = new std::map<std::string, Orig>;
    vs::atEnd = [p, m, origs](const std::string &st) {
        vs::observe("D: " + fmtDeliveries(W->a, true));
        if (st != "done") return;
        std::map<std::string, int> cnt;
        for (auto &d : W->a) cnt[d.text]++;
        for (auto &kv : *origs) if (cnt[kv.first] != 1) vs::violation("exactly-once", "message " + kv.first + " delivered " + S(cnt[kv.first]) + " times");
        std::map<int, int> last;
        for (auto &d : W->a) { if (last.count(d.prod) && d.idx <= last[d.prod]) vs::violation("producer-order", "producer " + S(d.prod) + ": message " + S(d.idx) + " delivered after " + S(last[d.prod])); last[d.prod] = d.idx; }
        // real-time order: a call that returned before another began is delivered first
        for (size_t i = 0; i < W->a.size(); i++) for (size_t j = i + 1; j < W->a.size(); j++) {
            const Orig &x = (*origs)[W->a[i].text], &y = (*origs)[W->a[j].text];
            if (y.ret && x.start && y.ret < x.start) vs::violation("real-time-order", "message " + W->a[j].text + " was accepted (call returned) before the call for " + W->a[i].text + " began, but is delivered after it");
        }
        for (auto &d : W->a) if (d.thread != W->workerTid) vs::violation("sink-on-caller-thread", "message " + d.text + " handled on T" + S(d.thread) + ", not on the worker");
    };
    auto *app = new vqt::VCoreApp();
    auto *h = new OwnThreadHandler<Pipeline>();
    h->append(SinkPtr(new FieldSink(origs, &W->a)));
    h->moveToOwnThread();
    W->workerTid = h->m_thread->m_tid;
    W->watchMutex = &h->m_mutex;
    std::vector<int> tids;
    for (int k = 0; k < p; k++) tids.push_back(vs::spawn([k, m, h, origs] {
        for (int i = 0; i < m; i++) {
            // caller-owned buffers, freed (and poisoned) right after the call
            bool nulls = (k + i) % 2 == 1;
            char *file = nulls ? nullptr : strdup(("file" + S(k) + S(i) + ".cpp").c_str());
            char *func = nulls ? nullptr : strdup(("void fn" + S(k) + S(i) + "()").c_str());
            char *cat = strdup(i % 2 ? "" : ("cat" + S(k)).c_str());
            QString text = QStringLiteral("p%1:%2").arg(k).arg(i);
            QtMsgType ty = QtMsgType((k + 2 * i) % 4);
            {
                QMessageLogContext ctx(file, 10 * k + i, func, cat);
                LogMessage msg(ty, ctx, text);
                if (i % 2 == 0) msg.setFormattedMessage(QStringLiteral("F<%1>").arg(text));
                msg.setAttribute(QStringLiteral("k"), k); msg.setAttribute(QStringLiteral("s"), QStringLiteral("v%1").arg(i));
                Orig o { ty, text, msg.isFormatted() ? msg.formattedMessage() : QString(), file ? file : "", func ? func : "", cat, !file, !func, false, 10 * k + i,
                         msg.time(), msg.steadyTime(), msg.threadId(), msg.attributes(), 0, 0 };
                o.start = ++W->clock;
                (*origs)[text.toStdString()] = o;
                h->process(msg);
                (*origs)[text.toStdString()].ret = ++W->clock;
            }
            if (file) { memset(file, 'X', strlen(file)); free(file); }
            if (func) { memset(func, 'X', strlen(func)); free(func); }
            memset(cat, 'X', strlen(cat)); free(cat);
        }
    }, "producer"));
    join(tids);
    W->stopBegan = true;
    h->resetOwnThread();
    delete h;
    delete app;
}

// ------------------------------------------------------------------------------------------------ C04
// paths: 1 = QCoreApplication::exec() returns -> aboutToQuit; 2 = explicit resetOwnThread(); 3 = destructor, application alive;
//        4 = destructor after the application object was destroyed, exec() never ran; 5 = as 4 but exec() ran (and returned) before
template<class H> void scenarioC04(int path)
{
    W = new World;
    vqt::G().glibDispatcher = P.glib;
    int backlog = P.backlog, racer = (path <= 2) ? P.racer : 0, cycles = P.cycles;
    auto *sent = new std::vector<std::string>;
    vs::atEnd = [sent, path](const std::string &st) {
        vs::observe("D: " + fmtDeliveries(W->a, true));
        vs::observe(std::string("stop-returned=") + (W->stopReturned ? "1" : "0"));
        if (st == "livelock" || st == "deadlock") vs::violation(std::string("stop-hangs:") + st + (vqt::VCoreApp::self ? "" : ":app-gone"), "stopping asynchronous logging never returns (" + st + ") on path " + S(path) + "; " + S((long long)W->a.size()) + " of " + S((long long)sent->size()) + " accepted messages delivered");
        if (st != "done") return;
        std::map<std::string, int> cnt;
        for (auto &d : W->a) cnt[d.text]++;
        for (auto &s : *sent) if (cnt[s] != 1) vs::violation(cnt[s] ? "duplicate" : "lost", "message " + s + " was accepted but delivered " + S(cnt[s]) + " times (path " + S(path) + ")");
    };
    auto *app = new vqt::VCoreApp();
    auto *h = new H();
    h->append(SinkPtr(new RecSink(&W->a, "sink")));
    int racerTid = -1;
    int seq = 0;
    for (int c = 0; c < cycles; c++) {
        h->moveToOwnThread();
        W->workerTid = h->m_thread->m_tid;
        W->stopBegan = W->stopReturned = false;
        std::vector<std::string> before;
        for (int i = 0; i < backlog; i++) {
            QMessageLogContext ctx("f.cpp", 1, "fn", "cat");
            QString text = QStringLiteral("p0:%1").arg(seq++);
            LogMessage msg(QtDebugMsg, ctx, text);
            h->process(msg);
            sent->push_back(text.toStdString()); before.push_back(text.toStdString());
        }
        if (racer > 0 && c == 0) racerTid = vs::spawn([racer, h, sent] {
            for (int i = 0; i < racer; i++) {
                QMessageLogContext ctx("f.cpp", 1, "fn", "cat");
                QString text = QStringLiteral("p1:%1").arg(i);
                LogMessage msg(QtInfoMsg, ctx, text);
                bool stopped = P.cycles == 1 && W->stopReturned && W->workerTid < 0; // with several cycles a new worker may appear meanwhile
                h->process(msg);
                sent->push_back(text.toStdString());
                if (stopped) { // logged after the stop had completed: must have been handled synchronously, on this thread, before process() returned
                    bool ok = false;
                    for (auto &d : W->a) if (d.text == text.toStdString() && d.thread == vs::self()) ok = true;
                    if (!ok) vs::violation("late-not-synchronous", "message " + text.toStdString() + " logged after the stop was not delivered synchronously on the caller's thread");
                }
            }
        }, "racer");
        auto afterStop = [&] {
            W->stopReturned = true; W->workerTid = -1;
            for (auto &s : before) { bool ok = false; for (auto &d : W->a) if (d.text == s) ok = true; if (!ok) vs::violation("stop-before-drained", "the stop returned before message " + s + " (accepted before the stop began) was delivered (path " + S(path) + ")"); }
        };
        W->stopBegan = true;
        if (path == 1) {
            vqt::VCoreApp::quit();
            vqt::VCoreApp::exec();         // returns at once, emits aboutToQuit -> resetOwnThread()
            afterStop();
        } else if (path == 2) {
            h->resetOwnThread();
            afterStop();
        } else break;
    }
    if (path == 5) { vqt::VCoreApp::quit(); vqt::VCoreApp::exec(); /* aboutToQuit stops the logger; then everything is torn down */ }
    if (racerTid >= 0) join({ racerTid });
    if (path == 4 || path == 5) { delete app; app = nullptr; }
    W->stopBegan = true;
    {
        std::vector<std::string> before = *sent;
        delete h;
        W->handlerDestroyed = true; W->stopReturned = true;
        for (auto &s : before) { bool ok = false; for (auto &d : W->a) if (d.text == s) ok = true; if (!ok) vs::violation("stop-before-drained", "the destructor returned before message " + s + " was delivered (path " + S(path) + ")"); }
    }
    delete app;
}

} // namespace

int main(int argc, char **argv)
{
    P.scenario = vx::argStr(argc, argv, "--scenario", "c02l");
    P.p = vx::argInt(argc, argv, "--p", 2); P.m = vx::argInt(argc, argv, "--m", 2);
    P.backlog = vx::argInt(argc, argv, "--backlog", 2); P.racer = vx::argInt(argc, argv, "--racer", 0);
    P.cycles = vx::argInt(argc, argv, "--cycles", 1); P.glib = vx::argInt(argc, argv, "--glib", 1);
    vs::Options o;
    o.bound = vx::argInt(argc, argv, "--bound", 2);
    o.shard = vx::argInt(argc, argv, "--shard", 0); o.nshards = vx::argInt(argc, argv, "--nshards", 1);
    int dl = vx::argInt(argc, argv, "--deadline-s", 0);
    if (dl > 0) { struct timeval tv; gettimeofday(&tv, nullptr); o.deadline = tv.tv_sec + dl; }
    const char *rp = vx::argStr(argc, argv, "--replay", nullptr);
    if (rp) { for (auto &c : QString::fromLatin1(rp).split(',', Qt::SkipEmptyParts)) o.replayChoices.push_back(c.toInt()); o.verbose = true; }
    std::function<void()> body;
    const std::string &s = P.scenario;
    if (s == "c02l") body = scenarioC02L;
    else if (s == "c02b") body = scenarioC02B;
    else if (s == "c03h") body = scenarioC03H;
    else if (s.compare(0, 4, "c04h") == 0) { int path = atoi(s.c_str() + 4); body = [path] { scenarioC04<OwnThreadHandler<Pipeline>>(path); }; }
    else if (s.compare(0, 4, "c04l") == 0) { int path = atoi(s.c_str() + 4); body = [path] { scenarioC04<Logger>(path); }; }
    else { fprintf(stderr, "unknown scenario\n"); return 3; }

    vs::Result R = vs::explore(body, o);
    vx::Summary sum;
    sum.cases = R.executions; sum.states = R.executions; sum.transitions = R.steps; sum.replays_ok = R.replaysOk;
    sum.exhaustive = R.exhaustive;
    for (auto &x : R.outcomes) sum.outcomes.insert(x);
    sum.counters["deadlocks"] = R.deadlocks; sum.counters["livelocks"] = R.livelocks; sum.counters["blocked_lock_events"] = R.blockedLockEvents;
    sum.bound = "scenario " + s + " p=" + S(P.p) + " m=" + S(P.m) + " backlog=" + S(P.backlog) + " racer=" + S(P.racer) + " cycles=" + S(P.cycles) + " glib=" + S(P.glib) + " deviations<=" + S(o.bound);
    std::string pj = "\"scenario\":" + vx::jstr(s) + ",\"p\":" + S(P.p) + ",\"m\":" + S(P.m) + ",\"backlog\":" + S(P.backlog) + ",\"racer\":" + S(P.racer) + ",\"cycles\":" + S(P.cycles) + ",\"glib\":" + S(P.glib);
    for (auto &v : R.violations) {
        std::string c; for (size_t i = 0; i < v.choices.size(); i++) c += (i ? "," : "") + S(v.choices[i]);
        sum.violate(s + ":" + v.key, "[" + sum.bound + "] " + v.what + " | observations: " + v.report, "{" + pj + ",\"choices\":" + vx::jstr(c) + "}");
    }
    sum.violationCount = R.violationCount;
    for (auto &x : R.samples) sum.sample(vx::jstr(x), 3);
    if (o.verbose) for (auto &x : R.outcomes) fprintf(stderr, "OUTCOME: %s\n", x.c_str());
    if (!R.engineError.empty()) { fprintf(stderr, "ENGINE: %s\n", R.engineError.c_str()); return 3; }
    sum.print();
    return 0;
}
