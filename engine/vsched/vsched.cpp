#include "vsched.h"

#include <errno.h>
#include <poll.h>
#include <pthread.h>
#include <linux/futex.h>
#include <sys/syscall.h>
#include <atomic>
#include <signal.h>
#include <stdio.h>
#include <stdlib.h>
#include <string.h>
#include <sys/time.h>
#include <sys/wait.h>
#include <unistd.h>
#include <set>
#include <algorithm>
#include <sstream>

namespace vs {

std::function<void(const std::string &)> atEnd;
std::function<void()> atFinish;

namespace {

// The baton is handed over with a raw futex system call on a plain word: a hand-off is NOT a synchronisation of the program
// under test, and under ThreadSanitizer (race pass, this file is compiled without instrumentation) it must not look like one,
// otherwise every pair of accesses would be ordered by the scheduler and no race could ever be reported.
struct Baton {
    std::atomic<int> v { 0 };
    void post() { v.store(1, std::memory_order_release); syscall(SYS_futex, reinterpret_cast<int *>(&v), FUTEX_WAKE, 1, nullptr, nullptr, 0); }
    void wait()
    {
        for (;;) {
            int one = 1;
            if (v.compare_exchange_strong(one, 0, std::memory_order_acquire)) return;
            syscall(SYS_futex, reinterpret_cast<int *>(&v), FUTEX_WAIT, 0, nullptr, nullptr, 0);
        }
    }
};
struct Thread {
    int id = 0;
    std::string name;
    Baton sem;
    bool finished = false, terminated = false;
    std::function<bool()> enabled;
    bool voluntary = false, canTimeout = false, timedOut = false, longOp = false;
    const char *op = "start";
    std::function<void()> body;
};
struct Step { int tid, nalts, chosen; std::vector<int> cost; };

bool g_active = false;
std::vector<Thread *> T;
thread_local Thread *me = nullptr;
std::vector<int> g_prefix;
size_t g_step = 0;
std::vector<Step> g_trace;
std::vector<std::string> g_report;
std::vector<std::pair<std::string, std::string>> g_viols;
int g_outFd = -1;
int g_yieldStreak = 0;
long g_sleeps = 0, g_sleepsAtProgress = 0;   // voluntary yields (sleep/poll iterations) in total / when the harness last reported progress
long g_blocked = 0;
int g_stepLimit = 20000;
bool g_verbose = false;
bool g_ending = false;

double now()
{
    struct timeval tv;
    gettimeofday(&tv, nullptr);
    return tv.tv_sec + tv.tv_usec / 1e6;
}

void writeAll(int fd, const std::string &s)
{
    size_t off = 0;
    while (off < s.size()) {
        ssize_t n = ::write(fd, s.data() + off, s.size() - off);
        if (n <= 0) { if (errno == EINTR) continue; break; }
        off += (size_t)n;
    }
}

[[noreturn]] void finishExecution(const std::string &status)
{
    if (g_ending) _exit(0);
    g_ending = true;
    g_active = false; // from here on every vqt operation is a plain one
    if (atFinish) atFinish();
    if (atEnd) atEnd(status);
    std::ostringstream o;
    o << "STATUS " << status << "\n";
    o << "BLOCKED " << g_blocked << "\n";
    o << "TRACE " << g_trace.size() << "\n";
    for (auto &s : g_trace) {
        o << s.tid << ' ' << s.nalts << ' ' << s.chosen;
        for (int c : s.cost) o << ' ' << c;
        o << "\n";
    }
    for (auto &l : g_report) o << "OBS " << l << "\n";
    for (auto &v : g_viols) o << "VIOL " << v.first << "\t" << v.second << "\n";
    o << "END\n";
    writeAll(g_outFd, o.str());
    _exit(0);
}

// the running thread calls this at every schedule point. selfContinues=false when the caller has finished.
void pick(bool selfContinues)
{
    struct Alt { Thread *t; int cost; bool timeout; };
    std::vector<Alt> order;
    std::vector<Thread *> others;
    bool meEnabled = false;
    bool anyBlocked = false;
    for (Thread *t : T) {
        if (t->finished || t->terminated) continue;
        if (t == me && !selfContinues) continue;
        bool en = t->enabled ? t->enabled() : true;
        if (!en) anyBlocked = true;
        if (t == me) meEnabled = en;
        else if (en) others.push_back(t);
    }
    if (anyBlocked) g_blocked++;
    if (selfContinues && meEnabled && !me->voluntary) {
        order.push_back({ me, 0, false });
        for (Thread *t : others) order.push_back({ t, 1, false });
    } else {
        // FAIRNESS: after a sleep / poll iteration the turn goes to a thread that wants to do real work; handing it to ANOTHER sleeper
        // while such a thread is runnable starves that thread (two polling loops could ping-pong for ever at no cost) and counts as a deviation
        bool anyWorker = false;
        for (Thread *t : others) if (!t->voluntary) anyWorker = true;
        std::stable_sort(others.begin(), others.end(), [](Thread *a, Thread *b) { return !a->voluntary && b->voluntary; });
        for (Thread *t : others) order.push_back({ t, (t->voluntary && anyWorker) ? 1 : 0, false });
        if (selfContinues && meEnabled) order.push_back({ me, others.empty() ? 0 : 1, false });
    }
    // timed waits: a blocked thread whose wait has a timeout may be resumed by it - free when nothing else can run, else a
    // deviation. TIME MODEL: seconds pass only while every other thread is blocked, asleep or inside an operation of arbitrary
    // duration (a harness handler's yield); a thread that is merely preempted between two ordinary operations will run again within
    // microseconds, so a multi-second timeout cannot expire "during a preemption".
    {
        bool nothing = order.empty();
        for (Thread *t : T) {
            if (t->finished || t->terminated || !t->canTimeout) continue;
            if (t == me && !selfContinues) continue;
            bool en = t->enabled ? t->enabled() : true;
            if (en) continue;
            bool quiescent = true;
            for (Thread *o : T) {
                if (o == t || o->finished || o->terminated) continue;
                if (o == me && !selfContinues) continue;
                bool oen = o->enabled ? o->enabled() : true;
                if (oen && !o->voluntary && !o->longOp) { quiescent = false; break; }
            }
            if (nothing || quiescent) order.push_back({ t, nothing ? 0 : 1, true });
        }
    }
    if (order.empty()) {
        bool all = true;
        for (Thread *t : T) if (!t->finished && !t->terminated && !(t == me && !selfContinues)) all = false;
        finishExecution(all ? "done" : "deadlock");
    }
    if ((long)g_step >= g_stepLimit) finishExecution("steplimit");
    int idx = g_step < g_prefix.size() ? g_prefix[g_step] : 0;
    if (idx < 0 || idx >= (int)order.size()) finishExecution("replay-divergence");
    Step st; st.tid = me ? me->id : -1; st.nalts = (int)order.size(); st.chosen = idx;
    for (auto &a : order) st.cost.push_back(a.cost);
    g_trace.push_back(st);
    g_step++;
    Alt a = order[idx];
    // livelock: a yielding thread is re-run although nobody else can move, again and again
    if (a.t == me && selfContinues && me->voluntary && others.empty()) {
        if (++g_yieldStreak > 40) finishExecution("livelock");
    } else if (a.t != me) g_yieldStreak = 0; // only another thread running can change what the spinning thread waits for
    // ... or a polling loop keeps other threads busy without anything observable ever happening (the harness reports
    // deliveries and completed operations through vs::progress())
    if (selfContinues && me && me->voluntary) {
        if (++g_sleeps - g_sleepsAtProgress > 300) finishExecution("livelock");
    }
    a.t->timedOut = a.timeout;
    if (g_verbose) fprintf(stderr, "  step %zu: T%d at %s -> T%d (%s)%s [alts %d]\n", g_step - 1, me ? me->id : -1, me ? me->op : "-", a.t->id, a.t->op, a.timeout ? " TIMEOUT" : "", (int)order.size());
    if (a.t != me) {
        Thread *self = me;
        a.t->sem.post();
        if (selfContinues) self->sem.wait();
    }
}

void *threadMain(void *arg)
{
    Thread *t = (Thread *)arg;
    me = t;
    t->sem.wait();
    t->op = "run";
    t->body();
    t->finished = true;
    t->enabled = nullptr;
    pick(false);
    // never scheduled again; the process ends through finishExecution in whichever thread detects the end
    for (;;) pause();
    return nullptr;
}

} // namespace

bool active() { return g_active; }
int self() { return me ? me->id : 0; }
long stepsSoFar() { return (long)g_step; }
int ownerQueryHook() { return 0; }

int spawn(std::function<void()> body, const char *name)
{
    Thread *t = new Thread;
    t->id = (int)T.size();
    t->name = name;
    t->body = std::move(body);
    T.push_back(t);
    pthread_t pt;
    pthread_attr_t at;
    pthread_attr_init(&at);
    pthread_attr_setstacksize(&at, 1 << 20);
    if (pthread_create(&pt, &at, threadMain, t) != 0) { perror("pthread_create"); _exit(98); }
    pthread_detach(pt);
    return t->id;
}

bool isFinished(int tid) { return tid >= 0 && tid < (int)T.size() && (T[tid]->finished || T[tid]->terminated); }
void markTerminated(int tid) { if (tid >= 0 && tid < (int)T.size()) T[tid]->terminated = true; }

bool point(const char *op, std::function<bool()> enabled, bool voluntary, bool canTimeout, bool longOp)
{
    if (!g_active || !me) return false;
    me->op = op;
    me->enabled = std::move(enabled);
    me->voluntary = voluntary;
    me->canTimeout = canTimeout;
    me->longOp = longOp;
    me->timedOut = false;
    pick(true);
    bool to = me->timedOut;
    me->enabled = nullptr; me->voluntary = false; me->canTimeout = false; me->timedOut = false; me->longOp = false;
    return to;
}

void observe(const std::string &line) { g_report.push_back(line); }
void progress() { g_sleepsAtProgress = g_sleeps; }
void violation(const std::string &key, const std::string &what) { g_viols.push_back({ key, what }); }

// ------------------------------------------------------------------------------------------------ parent side
namespace {

struct Exec {
    std::string status;
    std::vector<Step> trace;
    std::vector<std::string> obs;
    std::vector<std::pair<std::string, std::string>> viols;
    long blocked = 0;
    bool ok = false;
    std::vector<int> choices() const { std::vector<int> c; for (auto &s : trace) c.push_back(s.chosen); return c; }
    std::string report() const { std::string r = status; for (auto &l : obs) { r += "\n"; r += l; } return r; }
};

Exec runOne(const std::function<void()> &body, const std::vector<int> &prefix, const Options &opt)
{
    Exec x;
    int fds[2];
    if (pipe(fds) != 0) { x.status = "engine:pipe"; return x; }
    fflush(stdout); fflush(stderr);
    pid_t p = fork();
    if (p < 0) { x.status = "engine:fork"; close(fds[0]); close(fds[1]); return x; }
    if (p == 0) {
        close(fds[0]);
        g_outFd = fds[1];
        g_prefix = prefix; g_step = 0; g_trace.clear(); g_report.clear(); g_viols.clear(); g_sleeps = g_sleepsAtProgress = 0;
        g_stepLimit = opt.stepLimit; g_verbose = opt.verbose;
        Thread *t0 = new Thread; t0->id = 0; t0->name = "main";
        T.clear(); T.push_back(t0); me = t0;
        g_active = true;
        body();
        t0->finished = true; t0->enabled = nullptr;
        pick(false);
        for (;;) pause();
    }
    close(fds[1]);
    std::string data;
    double t0 = now();
    char buf[65536];
    bool timedOut = false;
    for (;;) {
        struct pollfd pfd = { fds[0], POLLIN, 0 };
        int left = opt.execTimeoutMs - (int)((now() - t0) * 1000);
        if (left <= 0) { timedOut = true; break; }
        int r = poll(&pfd, 1, left);
        if (r < 0) { if (errno == EINTR) continue; break; }
        if (r == 0) { timedOut = true; break; }
        ssize_t n = read(fds[0], buf, sizeof buf);
        if (n <= 0) break;
        data.append(buf, (size_t)n);
    }
    close(fds[0]);
    if (timedOut) kill(p, SIGKILL);
    int st = 0;
    waitpid(p, &st, 0);
    if (timedOut) { x.status = "engine:timeout"; return x; }
    // parse
    std::istringstream in(data);
    std::string line;
    bool end = false;
    while (std::getline(in, line)) {
        if (line.compare(0, 7, "STATUS ") == 0) x.status = line.substr(7);
        else if (line.compare(0, 8, "BLOCKED ") == 0) x.blocked = atol(line.c_str() + 8);
        else if (line.compare(0, 6, "TRACE ") == 0) {
            long n = atol(line.c_str() + 6);
            for (long i = 0; i < n && std::getline(in, line); i++) {
                std::istringstream ls(line);
                Step s; ls >> s.tid >> s.nalts >> s.chosen;
                int c; while (ls >> c) s.cost.push_back(c);
                x.trace.push_back(s);
            }
        } else if (line.compare(0, 4, "OBS ") == 0) x.obs.push_back(line.substr(4));
        else if (line.compare(0, 5, "VIOL ") == 0) { auto tab = line.find('\t'); x.viols.push_back({ line.substr(5, tab - 5), tab == std::string::npos ? "" : line.substr(tab + 1) }); }
        else if (line == "END") end = true;
    }
    if (!end) {
        // the child died without reporting: sanitizer abort or crash — attributed to this schedule
        x.status = std::string("crash:") + (WIFSIGNALED(st) ? "signal " + std::to_string(WTERMSIG(st)) : "exit " + std::to_string(WEXITSTATUS(st)));
        x.ok = true; // a result, not an engine failure
        return x;
    }
    x.ok = true;
    return x;
}

} // namespace

Result explore(const std::function<void()> &body, const Options &opt)
{
    Result R;
    std::set<std::string> outcomes;
    std::set<std::string> violKeys;
    long long unitNo = 0;
    bool stop = false;

    if (!opt.replayChoices.empty() || opt.verbose) {
        Options o = opt; o.verbose = true;
        Exec x = runOne(body, opt.replayChoices, o);
        R.executions = 1; R.steps = (long long)x.trace.size();
        R.outcomes.push_back(x.report());
        for (auto &v : x.viols) { R.violations.push_back({ v.first, v.second, x.choices(), x.report() }); R.violationCount++; }
        if (x.status != "done") { R.violations.push_back({ "status:" + x.status, "execution ended with status " + x.status, x.choices(), x.report() }); R.violationCount++; }
        return R;
    }

    std::function<void(const std::vector<int> &, int, int)> dfs = [&](const std::vector<int> &prefix, int level, int /*unused*/) {
        if (stop) return;
        if (now() > opt.deadline) { R.exhaustive = false; stop = true; return; }
        Exec x = runOne(body, prefix, opt);
        if (!x.ok || x.status == "replay-divergence" || x.status == "steplimit") {
            // retry once (e.g. wall-clock timeout under load) before calling it an engine failure
            Options o2 = opt; o2.execTimeoutMs = opt.execTimeoutMs * 4;
            x = runOne(body, prefix, o2);
            if (!x.ok || x.status == "replay-divergence" || x.status == "steplimit") {
                std::string c; for (int k : prefix) c += std::to_string(k) + ",";
                R.engineError = "execution failed with status " + x.status + " for prefix [" + c + "]";
                stop = true; return;
            }
        }
        bool counted = level >= 2 || opt.shard == 0;
        std::vector<int> choices = x.choices();
        // a child that died (signal, sanitizer abort) could not report its trace: it followed the prefix and the default choice afterwards, so the
        // prefix IS its schedule (replayed below like every other violation)
        if (x.status.compare(0, 6, "crash:") == 0 && x.trace.empty()) choices = prefix;
        if (counted) {
            R.executions++;
            R.steps += (long long)x.trace.size();
            R.blockedLockEvents += x.blocked;
            if (x.status == "deadlock") R.deadlocks++;
            if (x.status == "livelock") R.livelocks++;
            std::string rep = x.report();
            if (outcomes.insert(rep).second && R.outcomes.size() < 400) R.outcomes.push_back(rep);
            std::vector<std::pair<std::string, std::string>> vs = x.viols;
            bool explained = false;
            for (auto &v : vs) if (v.first.find("hangs") != std::string::npos) explained = true;
            if (x.status != "done" && !explained) vs.push_back({ "status:" + x.status, "the execution ended with status '" + x.status + "' (threads left blocked / spinning / crashed)" });
            for (auto &v : vs) {
                R.violationCount++;
                // replay before report: the same choice list must fail the same way
                if (violKeys.count(v.first)) continue;
                Exec y = runOne(body, choices, opt);
                bool same = y.ok && y.report() == x.report();
                if (!same) { R.engineError = "violation '" + v.first + "' did not reproduce on replay (nondeterminism)"; stop = true; return; }
                violKeys.insert(v.first);
                R.violations.push_back({ v.first, v.second, choices, rep });
            }
            if (opt.replayCheck && (R.executions % 64) == 1) {
                Exec y = runOne(body, choices, opt);
                if (!y.ok || y.report() != x.report() || y.trace.size() != x.trace.size()) { R.engineError = "replay diverged (nondeterminism outside the scheduler)"; stop = true; return; }
                R.replaysOk++;
            }
            if (R.samples.size() < 3 && x.trace.size() > 8 && level >= 1) {
                std::string c; for (int k : choices) c += std::to_string(k);
                R.samples.push_back("choices=" + c + " => " + rep);
            }
        }
        int cost = 0;
        for (size_t i = 0; i < x.trace.size(); i++) {
            if (i >= prefix.size()) {
                for (int alt = 1; alt < x.trace[i].nalts; alt++) {
                    int c = cost + x.trace[i].cost[alt];
                    if (c > opt.bound) continue;
                    if (level == 1) { if ((unitNo++ % opt.nshards) != opt.shard) continue; }
                    std::vector<int> child(choices.begin(), choices.begin() + (long)i);
                    child.push_back(alt);
                    dfs(child, level + 1, 0);
                    if (stop) return;
                }
            }
            cost += x.trace[i].cost[x.trace[i].chosen];
        }
    };
    dfs({}, 0, 0);
    R.boundCompleted = R.exhaustive && R.engineError.empty() ? opt.bound : -1;
    return R;
}

} // namespace vs
