// vdev: the "device" of engine vfs. libc entry points that Qt's file engine and clock use are
// DEFINED HERE, IN THE HARNESS EXECUTABLE (linked with -rdynamic), so calls made from libQt5Core.so
// resolve to them. Every call on a path below vdev::root is (1) logged, (2) counted when it mutates
// the directory, (3) optionally turned into a crash (_exit before the k-th mutating call) or a single
// failure (-1/errno), (4) used to maintain a virtual modification time per inode; stat results are
// patched from it and the wall clock is virtual. Nothing in /repo is instrumented.
#pragma once
#include <dlfcn.h>
#include <errno.h>
#include <fcntl.h>
#include <stdarg.h>
#include <stdint.h>
#include <stdio.h>
#include <stdlib.h>
#include <string.h>
#include <sys/stat.h>
#include <sys/time.h>
#include <sys/types.h>
#include <time.h>
#include <unistd.h>
#include <sys/syscall.h>
#include <functional>
#include <map>
#include <string>
#include <vector>

namespace vdev {

struct Call {
    const char *name;
    std::string path, path2;
    int fd = -1;
    long n = 0;
    int flags = 0;
    long result = 0;
    bool mutating = false;
    std::string data; // bytes passed to write() (captured while logging)
};

inline bool active = false;          // virtualisation on (clock + mtime + logging)
inline std::string root;             // only paths below this prefix are "ours"
inline int64_t nowMs = 0;            // virtual wall clock, ms since the epoch
inline int mtimeGranMs = 1;          // timestamp granularity of the virtual file system
inline std::vector<Call> log;
inline bool logging = false;
inline long mutCount = 0;            // mutating calls seen while armed
inline bool armed = false;           // count / crash / fail only while armed (the operation under test)
inline long crashAt = -1;            // _exit(0) BEFORE performing the crashAt-th mutating call (1-based)
inline long failAt = -1;             // make the failAt-th mutating call fail with failErrno
inline bool readOpenPoints = false;  // read-only opens of existing files also count as (crash /) fault points, logged as "openrd"
inline long failFrom = -1;           // "read-only directory": from the failFrom-th mutating call on, every directory-modifying call fails while armed
inline int failErrno = EACCES;
inline bool failed = false;
inline std::map<ino_t, int64_t> vmtime;
inline std::map<int, std::string> fdPath;
inline std::function<void(const Call &)> preMutate; // monitor hook, called before a mutating call is performed
inline void (*onCrash)() = nullptr;

template <class F> F real(const char *name)
{
    void *p = dlsym(RTLD_NEXT, name);
    if (!p) { fprintf(stderr, "vdev: no real %s\n", name); _exit(97); }
    return reinterpret_cast<F>(p);
}
#define VDEV_REAL(ret, name, ...) static auto r_##name = vdev::real<ret (*)(__VA_ARGS__)>(#name)

inline bool ours(const char *p) { return active && p && !root.empty() && strncmp(p, root.c_str(), root.size()) == 0; }

inline int64_t quantised() { return nowMs - (nowMs % mtimeGranMs); }

inline ino_t inoOfFd(int fd)
{
    VDEV_REAL(int, fstat, int, struct stat *);
    struct stat st;
    if (r_fstat(fd, &st) != 0) return 0;
    return st.st_ino;
}
inline bool existsReal(const char *p, struct stat *out = nullptr)
{
    VDEV_REAL(int, lstat, const char *, struct stat *);
    struct stat st;
    int r = r_lstat(p, out ? out : &st);
    return r == 0;
}

// returns true if the call must fail (errno set). Crashes do not return.
inline bool gate(Call &c, bool dirOp = true)
{
    c.mutating = true;
    if (preMutate) preMutate(c);
    if (!armed) return false;
    mutCount++;
    if (crashAt > 0 && mutCount == crashAt) {
        if (onCrash) onCrash();
        _exit(0);
    }
    if (failAt > 0 && mutCount == failAt) {
        failed = true;
        errno = failErrno;
        return true;
    }
    if (failFrom > 0 && mutCount >= failFrom && dirOp) {
        failed = true;
        errno = failErrno;
        return true;
    }
    return false;
}
inline void record(const Call &c)
{
    if (logging) log.push_back(c);
    static const bool dbg = getenv("VFS_DEBUG") != nullptr;
    if (dbg) { char b[600]; int n = snprintf(b, sizeof b, "vdev[%d] %s %s %s n=%ld flags=%x -> %ld%s\n", (int)getpid(), c.name, c.path.c_str(), c.path2.c_str(), c.n, c.flags, c.result, c.mutating ? " (mutating)" : ""); if (n > 0) syscall(1 /*SYS_write*/, 2, b, (size_t)n); }
}

} // namespace vdev

extern "C" {

// ---------------------------------------------------------------- clock
int gettimeofday(struct timeval *tv, void *tz)
{
    VDEV_REAL(int, gettimeofday, struct timeval *, void *);
    if (!vdev::active) return r_gettimeofday(tv, tz);
    if (tv) { tv->tv_sec = vdev::nowMs / 1000; tv->tv_usec = (vdev::nowMs % 1000) * 1000; }
    return 0;
}
int clock_gettime(clockid_t id, struct timespec *ts)
{
    VDEV_REAL(int, clock_gettime, clockid_t, struct timespec *);
    if (!vdev::active || (id != CLOCK_REALTIME && id != CLOCK_REALTIME_COARSE)) return r_clock_gettime(id, ts);
    if (ts) { ts->tv_sec = vdev::nowMs / 1000; ts->tv_nsec = (vdev::nowMs % 1000) * 1000000L; }
    return 0;
}
time_t time(time_t *t)
{
    VDEV_REAL(time_t, time, time_t *);
    if (!vdev::active) return r_time(t);
    time_t v = vdev::nowMs / 1000;
    if (t) *t = v;
    return v;
}

// ---------------------------------------------------------------- open family
static int vdev_open_common(const char *fn, int dirfd, const char *path, int flags, mode_t mode)
{
    VDEV_REAL(int, openat64, int, const char *, int, ...);
    if (!vdev::ours(path)) return r_openat64(dirfd, path, flags, mode);
    vdev::Call c; c.name = fn; c.path = path; c.flags = flags;
    struct stat st;
    bool existed = vdev::existsReal(path, &st);
    bool mut = ((flags & O_CREAT) && !existed) || ((flags & O_TRUNC) && existed && st.st_size > 0);
    if (mut && vdev::gate(c, /* dirOp */ !existed)) { c.result = -1; vdev::record(c); return -1; }
    if (!mut && existed && vdev::readOpenPoints && vdev::armed && (flags & O_ACCMODE) == O_RDONLY && S_ISREG(st.st_mode)) {
        // reading a file back (the compression step reads the rotated file) can fail too: descriptor limit, permissions
        c.name = "openrd";
        if (vdev::gate(c, false)) { c.result = -1; vdev::record(c); return -1; }
    }
    int fd = r_openat64(dirfd, path, flags, mode);
    int e = errno;
    c.result = fd; c.fd = fd;
    if (fd >= 0) {
        vdev::fdPath[fd] = path;
        if (!existed || (flags & O_TRUNC)) vdev::vmtime[vdev::inoOfFd(fd)] = vdev::quantised();
    }
    vdev::record(c);
    errno = e;
    return fd;
}
int open(const char *path, int flags, ...)
{
    mode_t mode = 0;
    if (flags & (O_CREAT | O_TMPFILE)) { va_list ap; va_start(ap, flags); mode = va_arg(ap, mode_t); va_end(ap); }
    return vdev_open_common("open", AT_FDCWD, path, flags, mode);
}
int open64(const char *path, int flags, ...)
{
    mode_t mode = 0;
    if (flags & (O_CREAT | O_TMPFILE)) { va_list ap; va_start(ap, flags); mode = va_arg(ap, mode_t); va_end(ap); }
    return vdev_open_common("open", AT_FDCWD, path, flags, mode);
}
int openat(int dirfd, const char *path, int flags, ...)
{
    mode_t mode = 0;
    if (flags & (O_CREAT | O_TMPFILE)) { va_list ap; va_start(ap, flags); mode = va_arg(ap, mode_t); va_end(ap); }
    return vdev_open_common("open", dirfd, path, flags, mode);
}
int openat64(int dirfd, const char *path, int flags, ...)
{
    mode_t mode = 0;
    if (flags & (O_CREAT | O_TMPFILE)) { va_list ap; va_start(ap, flags); mode = va_arg(ap, mode_t); va_end(ap); }
    return vdev_open_common("open", dirfd, path, flags, mode);
}
int creat(const char *path, mode_t mode) { return vdev_open_common("open", AT_FDCWD, path, O_CREAT | O_WRONLY | O_TRUNC, mode); }
int creat64(const char *path, mode_t mode) { return vdev_open_common("open", AT_FDCWD, path, O_CREAT | O_WRONLY | O_TRUNC, mode); }

ssize_t write(int fd, const void *buf, size_t n)
{
    VDEV_REAL(ssize_t, write, int, const void *, size_t);
    if (!vdev::active) return r_write(fd, buf, n);
    auto it = vdev::fdPath.find(fd);
    if (it == vdev::fdPath.end()) return r_write(fd, buf, n);
    vdev::Call c; c.name = "write"; c.path = it->second; c.fd = fd; c.n = (long)n;
    if (vdev::gate(c, false)) { c.result = -1; vdev::record(c); return -1; }
    ssize_t r = r_write(fd, buf, n);
    int e = errno;
    c.result = r;
    if (r > 0) { vdev::vmtime[vdev::inoOfFd(fd)] = vdev::quantised(); if (vdev::logging) c.data.assign((const char *)buf, (size_t)r); }
    vdev::record(c);
    errno = e;
    return r;
}
int close(int fd)
{
    VDEV_REAL(int, close, int);
    if (vdev::active) {
        auto it = vdev::fdPath.find(fd);
        if (it != vdev::fdPath.end()) {
            vdev::Call c; c.name = "close"; c.path = it->second; c.fd = fd;
            vdev::record(c);
            vdev::fdPath.erase(it);
        }
    }
    return r_close(fd);
}
int ftruncate(int fd, off_t len)
{
    VDEV_REAL(int, ftruncate, int, off_t);
    auto it = vdev::fdPath.find(fd);
    if (!vdev::active || it == vdev::fdPath.end()) return r_ftruncate(fd, len);
    vdev::Call c; c.name = "ftruncate"; c.path = it->second; c.fd = fd; c.n = (long)len;
    if (vdev::gate(c, false)) { c.result = -1; vdev::record(c); return -1; }
    int r = r_ftruncate(fd, len);
    c.result = r; vdev::record(c);
    return r;
}
int ftruncate64(int fd, off64_t len) { return ftruncate(fd, (off_t)len); }

// ---------------------------------------------------------------- rename / link / unlink
static int vdev_rename_common(const char *a, const char *b, unsigned flags, bool viaAt2)
{
    VDEV_REAL(int, renameat2, int, const char *, int, const char *, unsigned);
    VDEV_REAL(int, rename, const char *, const char *);
    if (!vdev::ours(a) && !vdev::ours(b)) return viaAt2 ? r_renameat2(AT_FDCWD, a, AT_FDCWD, b, flags) : r_rename(a, b);
    vdev::Call c; c.name = "rename"; c.path = a; c.path2 = b; c.flags = (int)flags;
    if (vdev::gate(c)) { c.result = -1; vdev::record(c); return -1; }
    int r = viaAt2 ? r_renameat2(AT_FDCWD, a, AT_FDCWD, b, flags) : r_rename(a, b);
    int e = errno;
    c.result = r; vdev::record(c);
    errno = e;
    return r;
}
int rename(const char *a, const char *b) { return vdev_rename_common(a, b, 0, false); }
int renameat(int, const char *a, int, const char *b) { return vdev_rename_common(a, b, 0, false); }
int renameat2(int, const char *a, int, const char *b, unsigned flags) { return vdev_rename_common(a, b, flags, true); }
int link(const char *a, const char *b)
{
    VDEV_REAL(int, link, const char *, const char *);
    if (!vdev::ours(a) && !vdev::ours(b)) return r_link(a, b);
    vdev::Call c; c.name = "link"; c.path = a; c.path2 = b;
    if (vdev::gate(c)) { c.result = -1; vdev::record(c); return -1; }
    int r = r_link(a, b);
    int e = errno;
    c.result = r; vdev::record(c);
    errno = e;
    return r;
}
int linkat(int, const char *a, int, const char *b, int) { return link(a, b); }
int unlink(const char *p)
{
    VDEV_REAL(int, unlink, const char *);
    if (!vdev::ours(p)) return r_unlink(p);
    vdev::Call c; c.name = "unlink"; c.path = p;
    if (vdev::gate(c)) { c.result = -1; vdev::record(c); return -1; }
    struct stat st;
    bool ex = vdev::existsReal(p, &st);
    int r = r_unlink(p);
    int e = errno;
    if (r == 0 && ex && st.st_nlink <= 1) vdev::vmtime.erase(st.st_ino);
    c.result = r; vdev::record(c);
    errno = e;
    return r;
}
int unlinkat(int dirfd, const char *p, int flags)
{
    VDEV_REAL(int, unlinkat, int, const char *, int);
    if (!vdev::ours(p) || (flags & AT_REMOVEDIR)) return r_unlinkat(dirfd, p, flags);
    return unlink(p);
}
int remove(const char *p)
{
    VDEV_REAL(int, remove, const char *);
    if (!vdev::ours(p)) return r_remove(p);
    return unlink(p);
}

// ---------------------------------------------------------------- stat family (virtual mtime)
static void vdev_patch(struct stat *st)
{
    auto it = vdev::vmtime.find(st->st_ino);
    if (it == vdev::vmtime.end()) return;
    st->st_mtim.tv_sec = it->second / 1000; st->st_mtim.tv_nsec = (it->second % 1000) * 1000000L;
    st->st_ctim = st->st_mtim; st->st_atim = st->st_mtim;
}
int statx(int dirfd, const char *path, int flags, unsigned mask, struct statx *sx)
{
    VDEV_REAL(int, statx, int, const char *, int, unsigned, struct statx *);
    int r = r_statx(dirfd, path, flags, mask, sx);
    if (r == 0 && vdev::active && sx) {
        auto it = vdev::vmtime.find((ino_t)sx->stx_ino);
        if (it != vdev::vmtime.end()) {
            sx->stx_mtime.tv_sec = it->second / 1000; sx->stx_mtime.tv_nsec = (uint32_t)((it->second % 1000) * 1000000L);
            sx->stx_ctime = sx->stx_mtime; sx->stx_atime = sx->stx_mtime; sx->stx_btime = sx->stx_mtime;
        }
    }
    return r;
}
int stat(const char *p, struct stat *st)
{
    VDEV_REAL(int, stat, const char *, struct stat *);
    int r = r_stat(p, st);
    if (r == 0 && vdev::active) vdev_patch(st);
    return r;
}
int lstat(const char *p, struct stat *st)
{
    VDEV_REAL(int, lstat, const char *, struct stat *);
    int r = r_lstat(p, st);
    if (r == 0 && vdev::active) vdev_patch(st);
    return r;
}
int fstat(int fd, struct stat *st)
{
    VDEV_REAL(int, fstat, int, struct stat *);
    int r = r_fstat(fd, st);
    if (r == 0 && vdev::active) vdev_patch(st);
    return r;
}
int fstatat(int dirfd, const char *p, struct stat *st, int flags)
{
    VDEV_REAL(int, fstatat, int, const char *, struct stat *, int);
    int r = r_fstatat(dirfd, p, st, flags);
    if (r == 0 && vdev::active) vdev_patch(st);
    return r;
}
int stat64(const char *p, struct stat64 *st) { return stat(p, reinterpret_cast<struct stat *>(st)); }
int lstat64(const char *p, struct stat64 *st) { return lstat(p, reinterpret_cast<struct stat *>(st)); }
int fstat64(int fd, struct stat64 *st) { return fstat(fd, reinterpret_cast<struct stat *>(st)); }
int fstatat64(int dirfd, const char *p, struct stat64 *st, int flags) { return fstatat(dirfd, p, reinterpret_cast<struct stat *>(st), flags); }

} // extern "C"
