// Engine vfs: history / crash-point / fault explorer over the REAL RotatingFileSink, running on a scratch
// directory in /dev/shm with libc interposed (vdev.h): virtual wall clock, virtual modification times,
// logged + counted system calls, crash (_exit) and single-failure injection.
//
// modes:
//   hist   enumerate every operation history up to a depth over the alphabet {W(kind)*, D(1), D(2), R}
//          for a list of configurations; after EVERY operation snapshot the directory and evaluate the
//          oracles of C05 C06 C07 C08 C09 (+ the destructive-call monitor of C10)
//   long   straight-line histories (index crossings 9->10, 99->100) under tie / no-tie clocks
//   gz     C08 boundary family (sizes x content generators) through a real compressing rotation
//   crash  C10: every mutating system call of a rotating write is a crash point and (for
//          rename/link/unlink/create) a single-failure point; then restart + 3 writes
//   replay one configuration + one history, verbose
//
// Violations carry the property id in their key ("C07:oversize ..."); the Python front-end of each
// property reports its own.
#include "vdev.h"

#include "../seqx/common.h"
#include "qtlogger/sinks/rotatingfilesink.h"

#include <dirent.h>
#include <sys/mman.h>
#include <sys/wait.h>
#include <zlib.h>

using namespace QtLogger;

namespace {

// ------------------------------------------------------------------------------------------------ config
struct Config {
    int L = 0, N = 0, opts = 0, shape = 0, tick = 0;
    bool decoys = true;
    std::string str() const
    {
        return "L=" + std::to_string(L) + " N=" + std::to_string(N) + " opts=" + std::string((opts & 1) ? "S" : "") + ((opts & 2) ? "D" : "") + ((opts & 4) ? "C" : "") +
                " shape=" + std::to_string(shape) + " tick=" + std::to_string(tick);
    }
    std::string json() const
    {
        return "{\"L\":" + std::to_string(L) + ",\"N\":" + std::to_string(N) + ",\"opts\":" + std::to_string(opts) + ",\"shape\":" + std::to_string(shape) +
                ",\"tick\":" + std::to_string(tick) + "}";
    }
    bool startup() const { return opts & 1; }
    bool daily() const { return opts & 2; }
    bool compress() const { return opts & 4; }
};
// shape 3 = shape 0 plus an OBSTACLE: a directory sits where the first rotated file of the first day would go, so that rotation's
// rename fails without any injected fault (the sink must then keep appending; nothing may be lost)
// shape 4 = shape 0 with a directory where the first COMPRESSED file would go: the .gz cannot be created (the rotated file must then stay)
const char *SHAPE_NAME[] = { "app.log", "app", "a+b.log", "app.log", "app.log", ".app.log" };   // shape 5: a hidden log file (dot file in a home directory)
const char *SHAPE_BASE[] = { "app", "app", "a+b", "app", "app", ".app" };
const char *SHAPE_SUFFIX[] = { "log", "", "log", "log", "log", "log" };
const char *OBSTACLE = "app.2024-02-28.1.log";
const char *OBSTACLE_GZ = "app.2024-02-28.1.log.gz";

std::vector<std::string> decoysFor(int shape)
{
    switch (shape) {
    case 0: return { "app.2000-01-01.1.log.bak", "app.2000-01-01.1.logx", "xapp.2000-01-01.1.log", "app.2000-1-1.1.log", "app.2000-01-01.a.log",
                     "app2000-01-01.1.log", "other.2000-01-01.1.log", "app.log.2000-01-01.1", "app.2000-01-01.1", "app.2000-01-01.1.log.gz.tmp",
                     "app.2000-01-01.1.txt", "app.2000-01-01..log", "app.log.1" };
    case 3: case 4: return { };
    case 5: return { ".app.2000-01-01.1.logx", "app.2000-01-01.1.log", ".xapp.2000-01-01.1.log", "..app.2000-01-01.1.log", ".app.log.1" };
    case 1: return { "app.2000-01-01.1.log", "app.2000-01-01.1x", "xapp.2000-01-01.1", "app.2000-01-01", "app.2000-01-01.1.gz.bak", "app2000-01-01.1", "app.1" };
    default: return { "aab.2000-01-01.1.log", "a+b.2000-01-01.1.logx", "aa+b.2000-01-01.1.log", "ab.2000-01-01.1.log", "a+b.2000-01-01.1" };
    }
}

// ------------------------------------------------------------------------------------------------ ops
struct Op { char k; int a; }; // 'W' a = write kind, 'D' a = days, 'R', 'Q' a = restart with an option toggled (1 compression, 2 rotation on startup)
struct WKind { std::string label; int size; int special; }; // special: 0 plain (framed size), 1 = one 2-byte char, 2 = two 2-byte chars, 3 = embedded LF

std::vector<WKind> writeKinds(const Config &c)
{
    std::vector<int> sizes;
    if (c.L > 0) { for (int s : { 1, c.L - 1, c.L, c.L + 1, c.L + 2 }) if (s >= 1 && std::find(sizes.begin(), sizes.end(), s) == sizes.end()) sizes.push_back(s); }
    else sizes = { 1, 3, 6 };
    std::sort(sizes.begin(), sizes.end());
    std::vector<WKind> k;
    for (int s : sizes) k.push_back({ "W" + std::to_string(s), s, 0 });
    k.push_back({ "Wu1", 3, 1 });
    k.push_back({ "Wu2", 5, 2 });
    k.push_back({ "Wnl", 4, 3 });
    return k;
}

std::string histStr(const std::vector<Op> &h, const std::vector<WKind> &wk)
{
    std::string s;
    for (auto &o : h) {
        if (!s.empty()) s += ' ';
        if (o.k == 'W') s += wk[o.a].label;
        else if (o.k == 'Y') s += "Y" + wk[o.a].label.substr(1);      // a lagging record (message dated yesterday) of that size
        else if (o.k == 'D') s += "D" + std::to_string(o.a);
        else if (o.k == 'Q') s += o.a == 1 ? "Qc" : "Qs";
        else s += "R";
    }
    return s;
}

// ------------------------------------------------------------------------------------------------ raw fs helpers (not virtualised)
struct Entry { std::string name; std::string bytes; };

std::vector<Entry> snapshot(const std::string &dir, const std::map<std::string, std::string> *skip = nullptr)
{
    bool was = vdev::active;
    vdev::active = false;
    std::vector<Entry> out;
    DIR *d = opendir(dir.c_str());
    if (d) {
        while (dirent *e = readdir(d)) {
            if (!strcmp(e->d_name, ".") || !strcmp(e->d_name, "..")) continue;
            Entry en; en.name = e->d_name;
            std::string p = dir + "/" + en.name;
            { struct stat st; if (lstat(p.c_str(), &st) == 0 && S_ISDIR(st.st_mode)) continue; }   // the obstacle directory of shape 3 is not a log file
            if (skip) { auto it = skip->find(en.name); if (it != skip->end()) { struct stat st; if (::stat(p.c_str(), &st) == 0 && (size_t)st.st_size == it->second.size()) { en.bytes = it->second; out.push_back(std::move(en)); continue; } } }
            FILE *f = fopen(p.c_str(), "rb");
            if (f) { char buf[65536]; size_t n; while ((n = fread(buf, 1, sizeof buf, f)) > 0) en.bytes.append(buf, n); fclose(f); }
            out.push_back(std::move(en));
        }
        closedir(d);
    }
    std::sort(out.begin(), out.end(), [](const Entry &a, const Entry &b) { return a.name < b.name; });
    vdev::active = was;
    return out;
}
void wipe(const std::string &dir)
{
    bool was = vdev::active;
    vdev::active = false;
    DIR *d = opendir(dir.c_str());
    if (d) {
        while (dirent *e = readdir(d)) {
            if (!strcmp(e->d_name, ".") || !strcmp(e->d_name, "..")) continue;
            std::string p = dir + "/" + e->d_name;
            struct stat st;
            if (lstat(p.c_str(), &st) == 0 && S_ISDIR(st.st_mode)) { wipe(p); rmdir(p.c_str()); }
            else unlink(p.c_str());
        }
        closedir(d);
    }
    vdev::active = was;
}
void putFile(const std::string &p, const std::string &bytes)
{
    FILE *f = fopen(p.c_str(), "wb");
    if (f) { fwrite(bytes.data(), 1, bytes.size(), f); fclose(f); }
}

// independent gzip decoder (zlib in gzip mode verifies CRC-32 and ISIZE itself); strict: header fields, one member, no trailing bytes
bool gunzipStrict(const std::string &in, std::string &out, std::string &why)
{
    out.clear();
    if (in.size() < 18) { why = "shorter than the minimal gzip member (18 bytes)"; return false; }
    if ((unsigned char)in[0] != 0x1f || (unsigned char)in[1] != 0x8b || in[2] != 8) { why = "bad magic / method"; return false; }
    if ((unsigned char)in[3] & 0xe0) { why = "reserved FLG bits set"; return false; }
    z_stream z; memset(&z, 0, sizeof z);
    if (inflateInit2(&z, 16 + 15) != Z_OK) { why = "inflateInit2"; return false; }
    z.next_in = (Bytef *)in.data(); z.avail_in = (uInt)in.size();
    char buf[65536];
    int r;
    do {
        z.next_out = (Bytef *)buf; z.avail_out = sizeof buf;
        r = inflate(&z, Z_NO_FLUSH);
        if (r != Z_OK && r != Z_STREAM_END) { why = std::string("inflate: ") + (z.msg ? z.msg : "error ") + std::to_string(r); inflateEnd(&z); return false; }
        out.append(buf, sizeof buf - z.avail_out);
        if (r == Z_OK && z.avail_in == 0 && z.avail_out != 0) { why = "truncated stream"; inflateEnd(&z); return false; }
    } while (r != Z_STREAM_END);
    bool trailing = z.avail_in != 0;
    inflateEnd(&z);
    if (trailing) { why = "trailing bytes after the gzip member"; return false; }
    // trailer fields, checked again by hand (little-endian CRC-32 then ISIZE)
    auto le32 = [&](size_t off) { return (uint32_t)(unsigned char)in[off] | ((uint32_t)(unsigned char)in[off + 1] << 8) | ((uint32_t)(unsigned char)in[off + 2] << 16) | ((uint32_t)(unsigned char)in[off + 3] << 24); };
    uint32_t crc = (uint32_t)crc32(0L, (const Bytef *)out.data(), (uInt)out.size());
    if (le32(in.size() - 8) != crc) { why = "CRC-32 field mismatch"; return false; }
    if (le32(in.size() - 4) != (uint32_t)out.size()) { why = "ISIZE field mismatch"; return false; }
    return true;
}

// ------------------------------------------------------------------------------------------------ name scheme (harness side, independent of the sink's regex)
struct Scheme { bool ok = false; std::string date; long long index = 0; bool gz = false; std::string identity; };

Scheme parseScheme(const std::string &name, int shape)
{
    Scheme s;
    std::string base = SHAPE_BASE[shape], suffix = SHAPE_SUFFIX[shape];
    std::string n = name;
    if (n.size() > 3 && n.compare(n.size() - 3, 3, ".gz") == 0) { s.gz = true; n.resize(n.size() - 3); }
    s.identity = n;
    if (n.compare(0, base.size() + 1, base + ".") != 0) return s;
    size_t p = base.size() + 1;
    if (n.size() < p + 10) return s;
    std::string d = n.substr(p, 10);
    for (int i = 0; i < 10; i++) { bool dash = (i == 4 || i == 7); if (dash ? d[i] != '-' : !isdigit((unsigned char)d[i])) return s; }
    p += 10;
    if (p >= n.size() || n[p] != '.') return s;
    p++;
    size_t q = p;
    while (q < n.size() && isdigit((unsigned char)n[q])) q++;
    if (q == p) return s;
    std::string rest = n.substr(q);
    if (suffix.empty() ? !rest.empty() : rest != "." + suffix) return s;
    s.date = d; s.index = atoll(n.substr(p, q - p).c_str()); s.ok = true;
    return s;
}

// ------------------------------------------------------------------------------------------------ world: the real sink + the model
const int64_t T0 = 1709114400000LL; // 2024-02-28T10:00:00Z; D(1) -> Feb 29 (leap day), D(2) -> Mar 1
std::string dayStr(int64_t ms)
{
    time_t t = (time_t)(ms / 1000);
    struct tm tm; gmtime_r(&t, &tm);
    char b[16]; strftime(b, sizeof b, "%Y-%m-%d", &tm);
    return b;
}

struct RotFile {
    std::string identity, date; long long index; std::string content; size_t start, end; bool alive; int seenOp; bool wasGz;
};

struct Viol { std::string key, what; };

struct World {
    Config cfg;
    std::string dir, path;
    QSharedPointer<RotatingFileSink> sink;
    // model
    std::string full;
    std::vector<size_t> recEnd;
    std::vector<std::string> recDay;
    std::vector<RotFile> rot;
    std::set<std::string> everNames;
    std::map<std::string, long long> maxIndexOfDate;
    std::map<std::string, std::string> decoys;
    size_t flushedFloor = 0; // bytes known to be on disk because the sink was destroyed
    int recCount = 0;
    int opNo = 0;
    std::vector<Viol> viols;
    std::vector<std::string> trace; // directory listings per op (replay mode)
    bool verbose = false;
    unsigned long long stateHash = 0;
    long rotations = 0, removals = 0, gzChecked = 0, gzSeen = 0;
    bool faultMode = false; // under crash/fault injection some oracles (C07, strict C05 equality) do not apply
    bool afterCrash = false; // this process adopted a directory that a crashed process left behind (a partial .gz may sit next to its intact original)

    void violate(const std::string &key, const std::string &what) { viols.push_back({ key, what }); }

    void start(const Config &c, const std::string &d)
    {
        cfg = c; dir = d; path = dir + "/" + SHAPE_NAME[c.shape];
        vdev::root = dir; vdev::nowMs = T0; vdev::vmtime.clear(); vdev::fdPath.clear(); vdev::mtimeGranMs = 1;
        vdev::active = false;
        if (c.decoys) for (auto &n : decoysFor(c.shape)) {
            decoys[n] = "decoy:" + n + "\n";
            struct stat st;
            if (::stat((dir + "/" + n).c_str(), &st) != 0) putFile(dir + "/" + n, decoys[n]); // kept across histories while intact (see wipeKeeping)
        }
        if (c.shape == 3) mkdir((dir + "/" + OBSTACLE).c_str(), 0700);
        if (c.shape == 4) mkdir((dir + "/" + OBSTACLE_GZ).c_str(), 0700);
        vdev::active = true;
        installMonitor();
        open();
    }
    void open()
    {
        sink = QSharedPointer<RotatingFileSink>::create(QString::fromStdString(path), cfg.L, cfg.N, RotatingFileSink::Options(cfg.opts));
    }
    void closeSink() { sink.reset(); }

    QString textFor(const WKind &k)
    {
        QChar fill = QChar(ushort('a' + recCount % 26));
        switch (k.special) {
        case 1: return QString(QChar(0x00e9));
        case 2: return QString(2, QChar(0x00e9));
        case 3: return QString(fill) + QLatin1Char('\n') + QString(fill).toUpper();
        default: return QString(k.size - 1, fill);
        }
    }
    void write(const WKind &k) { writeText(textFor(k)); }
    std::string baseFull; // faultMode: what the directory held when this process adopted it
    // Under crash / fault injection the reference stream is not what the harness sent but what REACHED the active file: the bytes of
    // every write() that returned on it, in order ("every record that had reached the file ..."). A record the sink could not write
    // because of the injected failure is not C10's business.
    void rebuildFullFromLog()
    {
        full = baseFull;
        for (auto &c : vdev::log) if (!strcmp(c.name, "write") && c.result > 0 && c.path == path) full += c.data;
        recEnd.clear(); recDay.clear();
        for (size_t i = 0; i < full.size(); i++) if (full[i] == '\n') { recEnd.push_back(i + 1); recDay.push_back("?"); }
    }
    void writeText(const QString &text)
    {
        QByteArray framed = text.toUtf8() + "\n";
        if (!faultMode) {
            full.append(framed.constData(), framed.size());
            recEnd.push_back(full.size());
            recDay.push_back(dayStr(vdev::nowMs));
        }
        recCount++;
        QMessageLogContext ctx("f.cpp", 1, "fn", "cat");
        LogMessage m(QtDebugMsg, ctx, text);
        sink->send(m);
    }
    // a LAGGING record: the message was created yesterday (its timestamp says so) and reaches the sink only now - what an
    // asynchronous logger does with a backlog across midnight. The record's day is the message's day.
    void writeLagging(const QString &text)
    {
        QByteArray framed = text.toUtf8() + "\n";
        long long now = vdev::nowMs;
        vdev::nowMs = now - 86400000LL;
        if (!faultMode) {
            full.append(framed.constData(), framed.size());
            recEnd.push_back(full.size());
            recDay.push_back(dayStr(vdev::nowMs));
        }
        recCount++;
        QMessageLogContext ctx("f.cpp", 1, "fn", "cat");
        LogMessage m(QtDebugMsg, ctx, text);
        vdev::nowMs = now;
        sink->send(m);
    }
    void apply(const Op &o, const std::vector<WKind> &wk)
    {
        opNo++;
        if (cfg.tick) vdev::nowMs += cfg.tick;
        if (o.k == 'W') write(wk[o.a]);
        else if (o.k == 'Y') writeLagging(textFor(wk[o.a]));
        else if (o.k == 'D') vdev::nowMs += 86400000LL * o.a;
        else if (o.k == 'Q') {
            // the application is restarted with an edited configuration: compression (Qc) or rotation on startup (Qs) switched. The
            // directory then holds rotated files of both kinds; limits and daily rotation stay (the oracles of C06 C07 C09 are stated
            // for a fixed N, L and daily flag)
            closeSink();
            cfg.opts ^= (o.a == 1 ? 4 : 1);
            open();
        }
        else { closeSink(); open(); }
    }

    std::set<std::string> unlinkTried; int unlinkTriedOp = -1; // rotated files this operation has already tried to unlink
    // ---- destructive-call monitor (C10's restart clause; also active in every history)
    void installMonitor()
    {
        vdev::preMutate = [this](const vdev::Call &c) {
            bool was = vdev::active; vdev::active = false;
            std::string nm = c.path.substr(c.path.rfind('/') + 1);
            if (getenv("VFS_TRACE")) { std::string ls; for (auto &e : snapshot(dir)) ls += " " + e.name + "(" + std::to_string(e.bytes.size()) + ")"; fprintf(stderr, "TRACE op%d %s %s %s | dir:%s\n", opNo, c.name, nm.c_str(), c.path2.c_str(), ls.c_str()); }
            if (!strcmp(c.name, "unlink")) {
                Scheme s = parseScheme(nm, cfg.shape);
                auto slurp = [](const std::string &p, std::string &out) { FILE *f = fopen(p.c_str(), "rb"); if (!f) return false; char b[65536]; size_t n; out.clear(); while ((n = fread(b, 1, sizeof b, f)) > 0) out.append(b, n); fclose(f); return true; };
                if (c.path == path) {
                    // Qt's QFile::rename falls back to copy + remove when the rename system call fails: legal iff a rotated file holds the same bytes
                    std::string mine, other; bool copied = false;
                    slurp(c.path, mine);
                    for (auto &e : snapshot(dir)) if (parseScheme(e.name, cfg.shape).ok && e.bytes == mine) copied = true;
                    // (after an injected rename failure Qt unlinks the source while the copy is still in its write buffer: the data
                    // is then checked by the stream oracle once the operation has finished)
                    if (!copied && !(faultMode && vdev::failed)) violate("C10:active-deleted", "unlink of the active file '" + nm + "' although no rotated file holds its content");
                } else if (!s.ok) violate("C06:unlink-foreign", "unlink of '" + nm + "', which does not follow this sink's rotated-name scheme");
                else {
                    // legal: (a) the plain original whose complete, valid .gz exists; (b) an oldest rotated file while more than N-1 exist
                    bool legalA = false, gzExists = false;
                    std::string why;
                    if (!s.gz) {
                        std::string z, o, plain;
                        if (slurp(c.path + ".gz", z) && slurp(c.path, plain)) { gzExists = true; legalA = gunzipStrict(z, o, why) && o == plain; if (legalA) why.clear(); else if (why.empty()) why = "content differs"; }
                    }
                    if (!legalA) {
                        auto snap = snapshot(dir);
                        int count = 0; bool older = false;
                        for (auto &e : snap) {
                            Scheme t = parseScheme(e.name, cfg.shape);
                            if (!t.ok) continue;
                            count++;
                            // an older file whose removal THIS operation has already asked for - and was refused by the file system - does not make
                            // the next-oldest an illegal victim: the sink did take the oldest first and the file is beyond the retention count either way
                            if ((t.date < s.date || (t.date == s.date && t.index < s.index)) && !(faultMode && unlinkTriedOp == opNo && unlinkTried.count(e.name))) older = true;
                        }
                        bool legalB = cfg.N > 0 && count > cfg.N - 1 && !older;
                        if (!legalB) {
                            if (gzExists) violate("C08:remove-before-complete", "unlink of '" + nm + "' while its .gz is not a complete valid gzip of it (" + why + ")");
                            else if (cfg.N <= 0) violate("C06:delete-unlimited", "unlink of rotated '" + nm + "' although the file-count limit is " + std::to_string(cfg.N) + " (keep everything)");
                            else if (count <= cfg.N - 1) violate("C10:delete-within-limit", "unlink of rotated '" + nm + "' while only " + std::to_string(count) + " rotated files exist (limit " + std::to_string(cfg.N) + ")");
                            else violate("C06:not-oldest", "unlink of rotated '" + nm + "' while an older rotated file still exists");
                        }
                        removals++;
                    }
                    if (unlinkTriedOp != opNo) { unlinkTried.clear(); unlinkTriedOp = opNo; }
                    unlinkTried.insert(nm);
                }
            } else if (!strcmp(c.name, "rename") || !strcmp(c.name, "link")) {
                std::string nm2 = c.path2.substr(c.path2.rfind('/') + 1);
                struct stat st;
                Scheme src = parseScheme(nm, cfg.shape), s = parseScheme(nm2, cfg.shape);
                bool srcActive = c.path == path, srcRotated = src.ok, srcForeign = decoys.count(nm) > 0;
                // Moving the ACTIVE file away is the rotation. Publishing a scratch file (a temporary name, or an unnamed file linked in
                // through its descriptor) under a fresh name is harmless whatever the name - that is how a careful implementation would
                // write the .gz. What may never be moved away is a rotated file (history disappears under another name) or a foreign file.
                if (srcRotated || srcForeign) violate("C10:rename-source", std::string(c.name) + " of '" + nm + "' (a rotated or foreign file is moved away)");
                if (vdev::existsReal(c.path2.c_str(), &st)) violate("C09:overwrite", std::string(c.name) + " onto existing '" + nm2 + "'");
                if (srcActive) {
                    if (!s.ok || s.gz) violate("C09:bad-rotated-name", "rotated name '" + nm2 + "' does not follow <base>.<date>.<index>[.<suffix>]");
                    else if (everNames.count(s.identity)) violate("C09:name-reused", "rotated name '" + nm2 + "' was used before");
                    if (!strcmp(c.name, "rename")) rotations++;
                }
            } else if (!strcmp(c.name, "open")) {
                struct stat st;
                // truncating a leftover scratch file is nobody's loss; the active file, rotated files and foreign files hold data
                bool dataFile = c.path == path || parseScheme(nm, cfg.shape).ok || decoys.count(nm) > 0;
                if ((c.flags & O_TRUNC) && dataFile && vdev::existsReal(c.path.c_str(), &st) && st.st_size > 0)
                    violate("C10:truncate", "open(O_TRUNC) of non-empty '" + nm + "' (" + std::to_string((long)st.st_size) + " bytes)");
            } else if (!strcmp(c.name, "ftruncate")) {
                violate("C10:truncate", "ftruncate of '" + nm + "'");
            }
            vdev::active = was;
        };
    }

    // A rotated file can be produced AND removed by retention within one operation (two rotations in one send), so that no snapshot ever
    // sees it. If the next file does not continue the stream at `start` but does at a later record boundary, and retention is active,
    // the gap is booked as a phantom file that retention removed (the legality of each unlink is the monitor's business).
    size_t realign(size_t start, const std::string &content)
    {
        if (cfg.N < 2 || content.empty()) return start;
        if (start + content.size() <= full.size() && full.compare(start, content.size(), content) == 0) return start;
        for (size_t b : recEnd) {
            if (b <= start || b + content.size() > full.size()) continue;
            if (full.compare(b, content.size(), content) == 0) {
                rot.push_back({ "(unseen, removed by retention)", rot.empty() ? std::string("0000-00-00") : rot.back().date, 0, full.substr(start, b - start), start, b, false, opNo, false });
                return b;
            }
        }
        return start;
    }

    // ---- the oracles, evaluated on a directory snapshot. final = the sink has been destroyed (everything flushed)
    void check(bool final)
    {
        if (faultMode) rebuildFullFromLog();
        auto snap = snapshot(dir, final ? nullptr : &decoys); // foreign files: size only between operations, bytes at the end (the monitor sees opens/unlinks)
        std::string act; bool haveActive = false;
        struct Seen { bool plain = false, gz = false; std::string plainBytes, gzBytes; Scheme s; };
        std::map<std::string, Seen> seen;
        std::string listing;
        unsigned long long h = 1469598103934665603ULL;
        auto mix = [&](const std::string &x) { for (unsigned char ch : x) { h ^= ch; h *= 1099511628211ULL; } h ^= 0xfe; h *= 1099511628211ULL; };
        for (auto &e : snap) {
            if (verbose) listing += e.name + "(" + std::to_string(e.bytes.size()) + ") ";
            auto dit = decoys.find(e.name);
            if (dit != decoys.end()) { if (e.bytes != dit->second) violate("C06:decoy-modified", "foreign file '" + e.name + "' was modified"); continue; }
            mix(e.name); mix(e.bytes);
            if (e.name == SHAPE_NAME[cfg.shape]) { act = e.bytes; haveActive = true; continue; }
            Scheme s = parseScheme(e.name, cfg.shape);
            if (!s.ok) { violate("C05:stray-file", "unexpected file '" + e.name + "' appeared in the log directory"); continue; }
            Seen &se = seen[s.identity];
            se.s = s;
            if (s.gz) { se.gz = true; se.gzBytes = e.bytes; } else { se.plain = true; se.plainBytes = e.bytes; }
        }
        for (auto &d : decoys) {
            bool found = false;
            for (auto &e : snap) if (e.name == d.first) found = true;
            if (!found) { violate("C06:decoy-deleted", "foreign file '" + d.first + "' was deleted"); }
        }
        mix(dayStr(vdev::nowMs)); mix(std::to_string(recCount));
        stateHash = h;
        if (verbose) trace.push_back(listing);

        // known rotated files: still there, unchanged?
        for (auto &r : rot) {
            if (!r.alive) continue;
            auto it = seen.find(r.identity);
            if (it == seen.end()) {
                r.alive = false;
                if (cfg.N <= 0) violate("C06:deleted-unlimited", "rotated file " + r.identity + " disappeared although the file-count limit is " + std::to_string(cfg.N));
                if (cfg.N <= 0 || cfg.N == 1) violate("C05:lost-file", "rotated file " + r.identity + " disappeared but retention is not active (N=" + std::to_string(cfg.N) + ")");
                continue;
            }
            std::string content, why;
            Seen &se = it->second;
            if (se.plain && se.gz && !faultMode) violate("C05:duplicate-file", "both " + r.identity + " and its .gz exist: reading the rotated files yields its records twice");
            if (se.gz) gzSeen++;
            if (se.plain) content = se.plainBytes;
            else if (!gunzipStrict(se.gzBytes, content, why)) {
                // after a crash a partial .gz can sit next to the intact plain file; if retention later removes the plain one (legality is the
                // monitor's business) the leftover is not a log file any more
                if (faultMode) { r.alive = false; continue; }
                violate("C08:invalid-gzip", r.identity + ".gz is not a valid gzip stream: " + why); continue;
            }
            else gzChecked++;
            if (se.plain && se.gz && faultMode) {
                std::string z;
                if (gunzipStrict(se.gzBytes, z, why)) gzChecked++;
                // a call failed but the operation ran to its end: whatever .gz it leaves must be complete (an unusable .gz next to the original
                // is never repaired and counts as a log file from then on)
                else if (!afterCrash) violate("C08:invalid-gzip-left-behind", r.identity + ".gz was left behind next to the uncompressed file and is not a valid gzip stream: " + why);
            }
            if (content != r.content) violate(se.plain ? "C05:rotated-changed" : "C08:content-mismatch", "content of rotated " + r.identity + (se.plain ? "" : ".gz (decompressed)") + " changed after rotation / differs from the rotated log");
        }
        // new rotated files, in (date, index) order
        std::vector<Seen *> fresh;
        for (auto &kv : seen) {
            bool known = false;
            for (auto &r : rot) if (r.identity == kv.first) known = true;
            if (!known) fresh.push_back(&kv.second);
        }
        std::sort(fresh.begin(), fresh.end(), [](Seen *a, Seen *b) { return a->s.date != b->s.date ? a->s.date < b->s.date : a->s.index < b->s.index; });
        for (Seen *se : fresh) {
            std::string content, why;
            if (cfg.N == 1) violate("C06:rotated-with-N1", "rotated file " + se->s.identity + " produced although the file-count limit is 1");
            if (se->plain && se->gz && !faultMode) violate("C05:duplicate-file", "both " + se->s.identity + " and its .gz exist");
            if (se->plain && se->gz && faultMode && !afterCrash) { std::string z, w2; if (!gunzipStrict(se->gzBytes, z, w2)) violate("C08:invalid-gzip-left-behind", se->s.identity + ".gz was left behind next to the uncompressed file and is not a valid gzip stream: " + w2); }
            if (se->gz) gzSeen++;
            if (se->plain) content = se->plainBytes;
            else if (!gunzipStrict(se->gzBytes, content, why)) { violate("C08:invalid-gzip", se->s.identity + ".gz is not a valid gzip stream: " + why); content.clear(); }
            else gzChecked++;
            if (se->gz != cfg.compress() && !faultMode) violate("C08:compression-option", std::string("rotated file ") + se->s.identity + (se->gz ? " is compressed although compression is off" : " is not compressed although compression is on"));
            size_t start = rot.empty() ? 0 : rot.back().end;
            start = realign(start, content);
            RotFile r { se->s.identity, se->s.date, se->s.index, content, start, start + content.size(), true, opNo, se->gz };
            if (everNames.count(r.identity)) violate("C09:name-reused", "rotated name " + r.identity + " was used before");
            everNames.insert(r.identity);
            auto mit = maxIndexOfDate.find(r.date);
            if (mit != maxIndexOfDate.end() && r.index <= mit->second) violate("C09:index-not-increasing", "rotated " + r.identity + " has index " + std::to_string(r.index) + " <= an earlier index " + std::to_string(mit->second) + " of the same date");
            {   // a reader can only order rotated files by the (date, index) in their names: that order must be the rotation order
                const RotFile *prev = nullptr;
                for (auto it = rot.rbegin(); it != rot.rend(); ++it) if (it->index > 0) { prev = &*it; break; }
                if (prev && (r.date < prev->date || (r.date == prev->date && r.index <= prev->index)))
                    violate("C05:name-order", "rotated " + r.identity + " was produced after " + prev->identity + " but sorts before it by (date, index): read in name order, newer records come before older ones");
            }
            if (!rot.empty() && (r.date < rot.back().date)) violate("C09:date-order", "rotated " + r.identity + " is dated before the previously rotated " + rot.back().identity);
            maxIndexOfDate[r.date] = std::max(mit == maxIndexOfDate.end() ? 0LL : mit->second, r.index);
            if (full.compare(start, content.size(), content) != 0 || start + content.size() > full.size())
                violate(se->plain ? "C05:rotated-content" : "C08:content-mismatch", "rotated " + r.identity + " does not continue the written stream at offset " + std::to_string(start) + " (records lost, duplicated or reordered)");
            rot.push_back(r);
        }
        // active file
        size_t astart = rot.empty() ? 0 : rot.back().end;
        if (!act.empty()) astart = realign(astart, act);
        if (!haveActive) { if (!faultMode) violate("C05:no-active", "the active log file does not exist"); }
        std::string expect = astart <= full.size() ? full.substr(astart) : std::string();
        if (act.size() > expect.size() || expect.compare(0, act.size(), act) != 0)
            violate("C05:active-content", "active file does not continue the written stream at offset " + std::to_string(astart) + " (records lost, duplicated or reordered)");
        else if (final && act.size() != expect.size())
            violate("C05:lost-tail", "after closing the sink " + std::to_string(expect.size() - act.size()) + " written byte(s) are in no file");
        // no record split: every file boundary is a record boundary
        auto isBoundary = [&](size_t off) { return off == 0 || std::binary_search(recEnd.begin(), recEnd.end(), off); };
        for (auto &r : rot) if (r.seenOp == opNo && !isBoundary(r.end)) violate("C05:record-split", "rotated " + r.identity + " ends inside a record");
        if (final && !isBoundary(astart + act.size())) violate("C05:record-split", "active file ends inside a record");

        // C06: count + contiguity
        int alive = 0; bool seenAlive = false;
        for (auto &r : rot) {
            if (r.alive) { alive++; seenAlive = true; }
            else if (seenAlive) { /* dead after alive: checked below */ }
        }
        bool deadAfterAlive = false; seenAlive = false;
        for (auto &r : rot) { if (r.alive) seenAlive = true; else if (seenAlive) deadAfterAlive = true; }
        if (deadAfterAlive) violate("C06:not-oldest", "a rotated file was deleted while an older one survives: the surviving records are not one contiguous most-recent stretch");
        if (cfg.N >= 2 && alive + 1 > cfg.N && !faultMode) violate("C06:too-many", std::to_string(alive + 1) + " log files exist (active + rotated), limit " + std::to_string(cfg.N));

        // C07: size limit (files the sink wrote, before compression)
        if (cfg.L > 0 && cfg.N != 1 && !faultMode) {
            auto recsIn = [&](size_t a, size_t b) { return int(std::upper_bound(recEnd.begin(), recEnd.end(), b) - std::upper_bound(recEnd.begin(), recEnd.end(), a)); };
            for (auto &r : rot) if (r.seenOp == opNo && (long)(r.end - r.start) > cfg.L && recsIn(r.start, r.end) != 1)
                violate("C07:oversize", "rotated " + r.identity + " is " + std::to_string(r.end - r.start) + " bytes > limit " + std::to_string(cfg.L) + " and holds " + std::to_string(recsIn(r.start, r.end)) + " records");
            size_t aend = final ? astart + act.size() : full.size(); // what the active file holds once flushed
            if ((long)(aend - astart) > cfg.L && recsIn(astart, aend) != 1)
                violate("C07:oversize", "active file is " + std::to_string(aend - astart) + " bytes > limit " + std::to_string(cfg.L) + " and holds " + std::to_string(recsIn(astart, aend)) + " records");
        }
        // C09: days apart + dated names
        if (cfg.daily() && cfg.N != 1 && !faultMode) {
            auto daysIn = [&](size_t a, size_t b, std::string &first) {
                std::set<std::string> ds;
                for (size_t i = 0; i < recEnd.size(); i++) { size_t s = i ? recEnd[i - 1] : 0; if (s >= a && recEnd[i] <= b) { if (ds.empty()) first = recDay[i]; ds.insert(recDay[i]); } }
                return ds.size();
            };
            std::string d0;
            for (auto &r : rot) if (r.seenOp == opNo) {
                size_t n = daysIn(r.start, r.end, d0);
                if (n > 1) violate("C09:days-mixed", "rotated " + r.identity + " holds records of " + std::to_string(n) + " different days");
                else if (n == 1 && d0 != r.date) violate("C09:wrong-date", "rotated " + r.identity + " holds records written on " + d0);
            }
            size_t n = daysIn(astart, full.size(), d0);
            if (n > 1) violate("C09:days-mixed", "the active file holds records of " + std::to_string(n) + " different days");
        }
    }
};

// ------------------------------------------------------------------------------------------------ history runner
struct RunResult { std::vector<Viol> viols; std::vector<unsigned long long> hashes; long rotations = 0, removals = 0, gz = 0, gzSeen = 0; std::vector<std::string> trace; };

std::string g_dir;

// remove everything except foreign files that the previous history left byte-identical (verified there by the final check)
void wipeKeeping(const std::string &dir, const Config &cfg, bool lastClean)
{
    if (!lastClean || !cfg.decoys) { wipe(dir); return; }
    bool was = vdev::active; vdev::active = false;
    auto keep = decoysFor(cfg.shape);
    DIR *d = opendir(dir.c_str());
    if (d) {
        while (dirent *e = readdir(d)) {
            if (!strcmp(e->d_name, ".") || !strcmp(e->d_name, "..")) continue;
            if (std::find(keep.begin(), keep.end(), std::string(e->d_name)) != keep.end()) continue;
            unlink((dir + "/" + e->d_name).c_str());
        }
        closedir(d);
    }
    vdev::active = was;
}
bool g_lastClean = false; int g_lastShape = -1;

RunResult runHistory(const Config &cfg, const std::vector<Op> &h, const std::vector<WKind> &wk, bool verbose = false)
{
    wipeKeeping(g_dir, cfg, g_lastClean && g_lastShape == cfg.shape);
    RunResult rr;
    {
        World w;
        w.verbose = verbose;
        w.start(cfg, g_dir);
        for (auto &o : h) {
            w.apply(o, wk);
            w.check(false);
            rr.hashes.push_back(w.stateHash);
        }
        w.closeSink();
        w.check(true);
        rr.hashes.push_back(w.stateHash);
        g_lastClean = w.viols.empty(); g_lastShape = cfg.shape;
        rr.viols = w.viols; rr.rotations = w.rotations; rr.removals = w.removals; rr.gz = w.gzChecked; rr.gzSeen = w.gzSeen; rr.trace = w.trace;
        vdev::preMutate = nullptr;
    }
    vdev::active = false;
    return rr;
}

bool g_reduced = false; // deep-narrow enumeration: only the smallest record and the record of exactly L bytes, D1, R

bool g_lag = false;
bool g_reconf = false; // restarts that switch an option (Qc, Qs) join the alphabet
std::vector<Op> alphabet(const std::vector<WKind> &wk, int maxDay, int L = -1)
{
    std::vector<Op> a;
    for (size_t i = 0; i < wk.size(); i++) {
        if (g_reduced && (wk[i].special != 0 || !(wk[i].size == 1 || wk[i].size == L || (L <= 1 && wk[i].size == 3)))) continue;
        a.push_back({ 'W', (int)i });
    }
    if (g_reduced) maxDay = 1;
    if (g_lag) for (size_t i = 0; i < wk.size(); i++) if (wk[i].special == 0 && (wk[i].size == 1 || wk[i].size == L)) a.push_back({ 'Y', (int)i });   // lagging records of size 1 and L
    for (int d = 1; d <= maxDay; d++) a.push_back({ 'D', d });
    a.push_back({ 'R', 0 });
    if (g_reconf) { a.push_back({ 'Q', 1 }); a.push_back({ 'Q', 2 }); }
    return a;
}

bool parseHistory(const std::string &s, const std::vector<WKind> &wk, std::vector<Op> &out)
{
    out.clear();
    for (auto &tok : QString::fromStdString(s).split(' ', Qt::SkipEmptyParts)) {
        std::string t = tok.toStdString();
        if (t == "R") { out.push_back({ 'R', 0 }); continue; }
        if (t == "Qc") { out.push_back({ 'Q', 1 }); continue; }
        if (t == "Qs") { out.push_back({ 'Q', 2 }); continue; }
        if (t[0] == 'D') { out.push_back({ 'D', atoi(t.c_str() + 1) }); continue; }
        if (t[0] == 'Y') { bool f = false; for (size_t i = 0; i < wk.size(); i++) if (wk[i].label == "W" + t.substr(1)) { out.push_back({ 'Y', (int)i }); f = true; } if (!f) return false; continue; }
        bool found = false;
        for (size_t i = 0; i < wk.size(); i++) if (wk[i].label == t) { out.push_back({ 'W', (int)i }); found = true; }
        if (!found) return false;
    }
    return true;
}

Config parseConfig(const std::string &s) // "L,N,opts,shape,tick"
{
    Config c;
    auto p = QString::fromStdString(s).split(',');
    c.L = p.value(0).toInt(); c.N = p.value(1).toInt(); c.opts = p.value(2).toInt(); c.shape = p.value(3).toInt(); c.tick = p.value(4).toInt();
    return c;
}

std::string g_onlyProp;   // "--only-prop C07": record violations of this property only (the others are counted); used where the explored
                          // space is deliberately outside the other properties' statements (lagging records)
void addViol(vx::Summary &sum, const Config &cfg, const std::string &hist, const Viol &v, const char *mode, const std::string &extra = "")
{
    if (!g_onlyProp.empty() && v.key.compare(0, g_onlyProp.size(), g_onlyProp) != 0) { sum.counters["violations_of_other_properties_not_recorded"]++; return; }
    // key: property + kind + option set (so that a different failing shape of the same property is a different finding)
    std::string key = v.key + " opts=" + ((cfg.opts & 1) ? "S" : "") + ((cfg.opts & 2) ? "D" : "") + ((cfg.opts & 4) ? "C" : "");
    sum.violate(key, "[" + cfg.str() + "] history [" + hist + "]: " + v.what,
                "{\"mode\":" + vx::jstr(mode) + ",\"config\":" + vx::jstr(std::to_string(cfg.L) + "," + std::to_string(cfg.N) + "," + std::to_string(cfg.opts) + "," + std::to_string(cfg.shape) + "," + std::to_string(cfg.tick)) +
                        ",\"history\":" + vx::jstr(hist) + extra + "}");
}

// ------------------------------------------------------------------------------------------------ mode hist
double realNow() { struct timespec ts; clock_gettime(CLOCK_MONOTONIC, &ts); return ts.tv_sec + ts.tv_nsec / 1e9; }   // the wall clock is virtual; the monotonic clock is not
double g_deadline = 0;      // real (monotonic) time after which the enumeration stops; 0 = none

void modeHist(const std::vector<Config> &cfgs, int depth, int maxDay, int shard, int nshards, vx::Summary &sum)
{
    std::set<unsigned long long> states;
    long long caseNo = 0;
    int completed = 0;
    bool cut = false;
    // iterative deepening over ALL configurations: when the deadline cuts the run, every history up to the last completed length has
    // been executed on every configuration (histories are replayed from scratch anyway, so deepening costs nothing extra)
    for (int d = 1; d <= depth && !cut; d++) {
        for (auto &cfg : cfgs) {
            auto wk = writeKinds(cfg);
            auto alpha = alphabet(wk, maxDay, cfg.L);
            // all sequences of length d in normal form (no D after D, no R after R, no leading R; a leading D dates the first record)
            std::function<void(std::vector<Op> &)> rec = [&](std::vector<Op> &h) {
                if (cut) return;
                if ((int)h.size() == d) {
                    if ((caseNo++ % nshards) == shard) {
                        if (g_deadline > 0 && (sum.cases % 256) == 0 && realNow() > g_deadline) { cut = true; return; }
                        RunResult rr = runHistory(cfg, h, wk);
                        sum.cases++;
                        sum.transitions += (long long)h.size() + 1;
                        for (auto x : rr.hashes) states.insert(x);
                        sum.counters["rotations"] += rr.rotations; sum.counters["retention_removals"] += rr.removals; sum.counters["gzip_files_decoded"] += rr.gz; sum.counters["gzip_files_seen"] += rr.gzSeen;
                        if (rr.rotations) sum.counters["histories_with_rotation"]++;
                        std::string hs = histStr(h, wk);
                        for (auto &v : rr.viols) addViol(sum, cfg, hs, v, "hist");
                        if ((sum.cases % 64) == 1) { // determinism: replay and compare the state hashes
                            RunResult r2 = runHistory(cfg, h, wk);
                            if (r2.hashes != rr.hashes) { fprintf(stderr, "ENGINE: replay of [%s] diverged\n", hs.c_str()); exit(3); }
                            sum.replays_ok++;
                        }
                        if (sum.samples.size() < 4 && rr.rotations >= 2 && h.size() >= 3) sum.sample("{\"config\":" + cfg.json() + ",\"history\":" + vx::jstr(hs) + ",\"rotations\":" + std::to_string(rr.rotations) + "}");
                    }
                    return;
                }
                for (auto &o : alpha) {
                    if (!h.empty() && o.k == 'D' && h.back().k == 'D') continue;
                    if (!h.empty() && o.k == 'R' && (h.back().k == 'R' || h.back().k == 'Q')) continue;   // a restart right after a restart changes nothing
                    if (!h.empty() && o.k == 'Q' && h.back().k == 'R') continue;                            // R;Q is Q
                    if (!h.empty() && o.k == 'Q' && h.back().k == 'Q' && h.back().a >= o.a) continue;        // Qc;Qs once (Qs;Qc is the same state, Qx;Qx is R)
                    if (h.empty() && (o.k == 'R' || o.k == 'Q')) continue;
                    h.push_back(o); rec(h); h.pop_back();
                }
            };
            std::vector<Op> h;
            rec(h);
            if (cut) break;
        }
        if (!cut) completed = d;
    }
    if (cut) sum.exhaustive = false;
    sum.counters["completed_depth_min"] = completed;   // merged by the driver as a minimum
    sum.states = (long long)states.size();
    for (auto s : states) { (void)s; }
    sum.outcomes.clear();
    sum.counters["distinct_directory_states"] = (long long)states.size();
}

// ------------------------------------------------------------------------------------------------ mode long: index crossings
void modeLong(const std::vector<Config> &cfgs, int writes, vx::Summary &sum)
{
    std::set<unsigned long long> states;
    for (auto &cfg : cfgs) {
        auto wk = writeKinds(cfg);
        // straight-line: `writes` records each of which rotates (framed size L), with a restart in the middle and a day change at 2/3
        for (int variant = 0; variant < 3; variant++) {
            std::vector<Op> h;
            int wl = 0; for (size_t i = 0; i < wk.size(); i++) if (wk[i].special == 0 && wk[i].size == std::max(1, cfg.L)) wl = (int)i;
            for (int i = 0; i < writes; i++) {
                h.push_back({ 'W', wl });
                if (variant == 1 && i == writes / 2) h.push_back({ 'R', 0 });
                if (variant == 2 && i == (2 * writes) / 3) h.push_back({ 'D', 1 });
            }
            RunResult rr = runHistory(cfg, h, wk);
            sum.cases++; sum.transitions += (long long)h.size() + 1;
            for (auto x : rr.hashes) states.insert(x);
            sum.counters["rotations"] += rr.rotations; sum.counters["retention_removals"] += rr.removals; sum.counters["gzip_files_decoded"] += rr.gz;
            std::string hs = std::to_string(writes) + "x" + wk[wl].label + (variant == 1 ? " with R in the middle" : variant == 2 ? " with D1 at 2/3" : "");
            std::string full = histStr(h, wk);
            for (auto &v : rr.viols) addViol(sum, cfg, full, v, "hist");
            RunResult r2 = runHistory(cfg, h, wk);
            if (r2.hashes != rr.hashes) { fprintf(stderr, "ENGINE: replay diverged (long)\n"); exit(3); }
            sum.replays_ok++;
            if (sum.samples.size() < 3) sum.sample("{\"config\":" + cfg.json() + ",\"history\":" + vx::jstr(hs) + ",\"rotations\":" + std::to_string(rr.rotations) + "}");
        }
    }
    sum.states = (long long)states.size();
}

// ------------------------------------------------------------------------------------------------ mode gz: C08 boundary family
QString genContent(int gen, long n)
{
    QString s; s.reserve((int)n);
    unsigned long long x = 88172645463325252ULL;
    for (long i = 0; i < n; i++) {
        ushort c;
        switch (gen) {
        case 0: c = 'A'; break;                                              // constant
        case 1: c = ushort('0' + (i % 10)); break;                           // counter
        case 2: x ^= x << 13; x ^= x >> 7; x ^= x << 17; c = ushort(33 + (x % 94)); break;   // fixed-seed xorshift over printable ASCII (poorly compressible)
        case 3: c = (i % 2) ? '\n' : 'x'; break;                             // very short lines inside one record
        case 4: { static const ushort m[] = { '\r', '\n', 0x01, 0xff, 0x7f, 'q', '\t', 0xe9 }; c = m[i % 8]; break; } // CR/LF/control/Latin-1 mix
        default: c = ushort('a' + ((i / 40000) % 3)); break;                 // long runs, repeats > 32 KiB apart
        }
        s.append(QChar(c));
    }
    return s;
}

void modeGz(const std::vector<long> &sizes, int gens, int shard, int nshards, bool alphabetFamily, vx::Summary &sum)
{
    Config cfg; cfg.L = 0; cfg.N = 0; cfg.opts = 1 | 4; cfg.shape = 0; cfg.tick = 0; cfg.decoys = false;
    auto wk = writeKinds(cfg);
    long long caseNo = 0;
    auto one = [&](const QString &text, const std::string &label) {
        if ((caseNo++ % nshards) != shard) return;
        wipe(g_dir);
        World w; w.start(cfg, g_dir);
        w.writeText(text); w.opNo++; w.check(false);
        w.closeSink(); w.open();               // restart: rotation on startup compresses the file at the next record
        w.opNo++; w.writeText(QStringLiteral("next")); w.check(false);
        w.closeSink(); w.opNo++; w.check(true);
        sum.cases++; sum.transitions += 3;
        sum.counters["gzip_files_decoded"] += w.gzChecked; sum.counters["gzip_files_seen"] += w.gzSeen; sum.counters["rotations"] += w.rotations;
        if (w.gzSeen < 1) w.violate("C08:no-gzip", "no compressed rotated file was produced");
        for (auto &v : w.viols) addViol(sum, cfg, label, v, "gz");
        sum.outcomes.insert(label.substr(0, label.find(' ')));
        if (sum.samples.size() < 3) sum.sample("{\"case\":" + vx::jstr(label) + ",\"gz_valid\":" + (w.viols.empty() ? "true" : "false") + "}");
        vdev::preMutate = nullptr; vdev::active = false;
    };
    for (long n : sizes) for (int g = 0; g < gens; g++) one(genContent(g, n - 1), "size=" + std::to_string(n) + " gen=" + std::to_string(g));
    if (alphabetFamily) {
        const ushort A[] = { 'a', 'b', '\n', '\r', 0, 0x1f, 0x7f, 0xe9, 0x8b, ' ', '"', 0x20ac };
        std::vector<QString> strs { QString() };
        for (ushort a : A) strs.push_back(QString(QChar(a)));
        for (ushort a : A) for (ushort b : A) strs.push_back(QString(QChar(a)) + QChar(b));
        for (auto &s : strs) { std::string lab = "alpha:"; for (QChar c : s) lab += "U+" + QString::number(c.unicode(), 16).toStdString() + ","; one(s, lab); }
    }
    sum.states = sum.cases;
}

// ------------------------------------------------------------------------------------------------ mode crash: C10
// All oracles are evaluated INSIDE the child that runs the history, with its model: at the crash instant (hook called right before
// _exit, so the directory is exactly what a killed process leaves behind — user-space buffers are lost), after a faulted operation,
// and after a restart. Results come back through a shared page.
struct Shared { long mutCount; int failedFlag; int nCalls; char calls[400][72]; int nViol; char viol[12][480]; long rotFiles; int done; long long nowMs; unsigned long long stateHash; int nTimes; char tname[48][64]; long long tms[48]; };
Shared *g_sh = nullptr;
World *g_world = nullptr;

void exportViols(World &w)
{
    int n = g_sh->nViol;
    for (auto &v : w.viols) if (n < 12) { snprintf(g_sh->viol[n], sizeof g_sh->viol[n], "%s\t%s", v.key.c_str(), v.what.c_str()); n++; }
    g_sh->nViol = n;
    w.viols.clear();
}
void exportCalls()
{
    int n = 0;
    for (auto &c : vdev::log) if (c.mutating && n < 400) { snprintf(g_sh->calls[n], sizeof g_sh->calls[n], "%s %s", c.name, c.path.substr(c.path.rfind('/') + 1).c_str()); n++; }
    g_sh->nCalls = n;
}
// every byte for which write() returned on a log file (not a .gz) must be in an intact file, or in a whole file removed by retention
void reachedOracle(World &w, long reached)
{
    long have = 0;
    for (auto &r : w.rot) have += (long)r.content.size();
    bool was = vdev::active; vdev::active = false;
    struct stat st;
    if (stat(w.path.c_str(), &st) == 0) have += (long)st.st_size;
    vdev::active = was;
    if (have != reached)
        w.violate("C10:reached-lost", std::to_string(reached) + " bytes had reached the log files, " + std::to_string(have) + " are accounted for by intact files (+ files removed by retention)");
}
// the virtual clock and the virtual modification times survive the "reboot": hand them to the next process
void exportTimes(const std::string &dir)
{
    g_sh->nowMs = vdev::nowMs;
    vdev::active = false;
    int nt = 0;
    for (auto &e : snapshot(dir)) {
        struct stat st;
        if (nt < 48 && ::stat((dir + "/" + e.name).c_str(), &st) == 0) {
            auto it = vdev::vmtime.find(st.st_ino);
            snprintf(g_sh->tname[nt], 64, "%s", e.name.c_str());
            g_sh->tms[nt] = it == vdev::vmtime.end() ? T0 - 86400000LL * 9000 : it->second;
            nt++;
        }
    }
    g_sh->nTimes = nt;
}

void followUpWrites(World &w, const Config &cfg)
{
    for (int i = 0; i < 3; i++) {
        if (cfg.L == 0) { if (cfg.daily()) vdev::nowMs += 86400000LL; else if (cfg.startup()) { w.closeSink(); w.open(); } }
        w.opNo++;
        w.writeText(QString(std::max(1, cfg.L - 1), QChar(ushort('P' + i))));
        w.check(false);
    }
    w.closeSink(); w.opNo++;
    w.check(true);
}

struct CrashPlan { long crashAt = -1, failAt = -1, failFrom = -1; int failErrno = EACCES; };

void childRun(const Config &cfg, const std::vector<Op> &h, const Op &fin, const std::vector<WKind> &wk, CrashPlan plan, const std::string &dir)
{
    static World w; // static: must outlive the crash hook
    g_world = &w;
    w.faultMode = true;
    if (getenv("VFS_TRACE")) { std::string hs; for (auto &o : h) hs += std::string(1, o.k) + std::to_string(o.a) + " "; fprintf(stderr, "TRACE ==== %s history %s| %c%d crashAt=%ld failAt=%ld failFrom=%ld\n", cfg.str().c_str(), hs.c_str(), fin.k, fin.a, plan.crashAt, plan.failAt, plan.failFrom); }
    w.start(cfg, dir);
    vdev::log.clear(); vdev::logging = true;
    for (auto &o : h) { w.apply(o, wk); w.check(false); }
    w.viols.clear(); // the prefix is fault-free: its verdicts belong to mode hist
    vdev::mutCount = 0; vdev::armed = true;
    vdev::crashAt = plan.crashAt; vdev::failAt = plan.failAt; vdev::failFrom = plan.failFrom; vdev::failErrno = plan.failErrno; vdev::failed = false;
    size_t logStart = vdev::log.size();
    static size_t s_logStart; s_logStart = logStart;
    vdev::onCrash = [] {
        World &w = *g_world;
        vdev::armed = false; vdev::preMutate = nullptr;
        w.opNo++;
        w.afterCrash = true;     // the process dies in the middle of the operation: a partial .gz next to its intact original is what a crash looks like
        w.check(false);
        reachedOracle(w, (long)w.full.size());
        g_sh->mutCount = vdev::mutCount;
        g_sh->rotFiles = (long)w.rot.size();
        g_sh->stateHash = w.stateHash;
        exportViols(w);
        exportTimes(w.dir);
        g_sh->done = 1;
    };
    w.apply(fin, wk);
    vdev::armed = false;
    g_sh->mutCount = vdev::mutCount; g_sh->failedFlag = vdev::failed;
    { // calls of the final op only
        std::vector<vdev::Call> keep(vdev::log.begin() + (long)logStart, vdev::log.end());
        auto all = vdev::log; vdev::log = keep; exportCalls(); vdev::log = all;
    }
    w.check(false);
    vdev::failFrom = -1;
    if (plan.failAt > 0 || plan.failFrom > 0) followUpWrites(w, cfg);
    else { w.closeSink(); w.opNo++; w.check(true); }
    exportViols(w);
    g_sh->rotFiles = (long)w.rot.size();
    g_sh->done = 1;
    _exit(0);
}

// a fresh process finds the directory a crash left behind: adopt it as the model's starting point, then log on
struct RestartInfo { long long nowMs; std::vector<std::pair<std::string, long long>> times; };

void childRestart(const Config &cfg, const std::string &dir, const RestartInfo &ri, int laterDays)
{
    static World w;
    w.faultMode = true; w.afterCrash = true;
    w.cfg = cfg; w.dir = dir; w.path = dir + "/" + SHAPE_NAME[cfg.shape];
    vdev::root = dir; vdev::nowMs = ri.nowMs + 60000 + 86400000LL * laterDays; vdev::vmtime.clear(); vdev::fdPath.clear();
    for (auto &t : ri.times) { struct stat st; if (::stat((dir + "/" + t.first).c_str(), &st) == 0) vdev::vmtime[st.st_ino] = t.second; }
    if (cfg.decoys) for (auto &n : decoysFor(cfg.shape)) w.decoys[n] = "decoy:" + n + "\n";
    {
        auto snap = snapshot(dir);
        struct F { Scheme s; std::string plain, gz; bool hasPlain = false, hasGz = false; };
        std::map<std::string, F> files;
        std::string act;
        for (auto &e : snap) {
            if (e.name == SHAPE_NAME[cfg.shape]) { act = e.bytes; continue; }
            Scheme s = parseScheme(e.name, cfg.shape);
            if (!s.ok) continue;
            F &f = files[s.identity]; f.s = s;
            if (s.gz) { f.hasGz = true; f.gz = e.bytes; } else { f.hasPlain = true; f.plain = e.bytes; }
        }
        std::vector<F *> order;
        for (auto &kv : files) order.push_back(&kv.second);
        std::sort(order.begin(), order.end(), [](F *a, F *b) { return a->s.date != b->s.date ? a->s.date < b->s.date : a->s.index < b->s.index; });
        for (F *f : order) {
            std::string c, why;
            w.everNames.insert(f->s.identity);
            w.maxIndexOfDate[f->s.date] = std::max(w.maxIndexOfDate.count(f->s.date) ? w.maxIndexOfDate[f->s.date] : 0LL, f->s.index);
            if (f->hasPlain) c = f->plain;
            else if (!gunzipStrict(f->gz, c, why)) continue; // reported at the crash instant
            size_t start = w.full.size();
            w.full += c;
            w.rot.push_back({ f->s.identity, f->s.date, f->s.index, c, start, w.full.size(), true, 0, f->hasGz && !f->hasPlain });
        }
        w.full += act;
        w.baseFull = w.full;
    }
    vdev::log.clear(); vdev::logging = true;
    // file timestamps of the adopted files: the day of the crash (T0-based histories span <= 3 days)
    vdev::active = true;
    w.installMonitor();
    w.open();
    long rot0 = w.rotations;
    followUpWrites(w, cfg);
    // Retention after a crash: no call fails in this process, so once it has rotated (and cleaned up) at least twice the directory must
    // be within the limit again - counting FILES, as the property does: a plain rotated file and a .gz of the same name that a crash
    // left side by side are two files. (During the crashed process itself, and under injected faults, the count oracle does not apply.)
    if (cfg.N >= 2 && w.rotations - rot0 >= 2) {
        int n = 0; std::string names;
        for (auto &e : snapshot(dir)) if (parseScheme(e.name, cfg.shape).ok) { n++; names += " " + e.name; }
        if (n + 1 > cfg.N) w.violate("C06:too-many-after-restart", std::to_string(n + 1) + " log files exist (active +" + names + ") after a restart and " + std::to_string(w.rotations - rot0) + " further rotations, limit " + std::to_string(cfg.N));
    }
    exportViols(w);
    exportTimes(dir);
    g_sh->done = 1;
    _exit(0);
}

void modeCrash(const std::vector<Config> &cfgs, int depth, int shard, int nshards, vx::Summary &sum)
{
    g_sh = (Shared *)mmap(nullptr, sizeof(Shared), PROT_READ | PROT_WRITE, MAP_SHARED | MAP_ANONYMOUS, -1, 0);
    vdev::readOpenPoints = true;
    std::set<std::string> crashSigs;
    long long caseNo = 0;
    auto forkDo = [&](std::function<void()> body) {
        memset(g_sh, 0, sizeof *g_sh);
        fflush(stdout); fflush(stderr);
        pid_t p = fork();
        if (p == 0) { if (!getenv("VFS_DEBUG")) { int dn = ::open("/dev/null", O_WRONLY); if (dn >= 0) dup2(dn, 2); } body(); _exit(0); }
        int st = 0; waitpid(p, &st, 0);
        if (!WIFEXITED(st) || WEXITSTATUS(st) != 0 || !g_sh->done) { fprintf(stderr, "ENGINE: child failed (status %d, done %d)\n", st, g_sh->done); exit(3); }
    };
    auto collect = [&](const Config &cfg, const std::string &hs, const std::string &prefix, const std::string &extra) {
        for (int i = 0; i < g_sh->nViol; i++) {
            std::string s = g_sh->viol[i]; std::string key = s.substr(0, s.find('\t')), what = s.substr(s.find('\t') + 1);
            // under a crash or fault every stream / recoverability verdict is C10's; the monitor's own C06/C09 verdicts keep their property but are reported by C10 too
            addViol(sum, cfg, hs, { "C10:" + prefix + "/" + key, what }, "crash", extra);
        }
    };
    for (auto &cfg : cfgs) {
        auto wk = writeKinds(cfg);
        auto alpha = alphabet(wk, 1);
        std::vector<std::vector<Op>> hists;
        {
            std::vector<std::vector<Op>> cur { {} };
            for (int d = 0; d < depth; d++) {
                std::vector<std::vector<Op>> nxt;
                for (auto &h : cur) for (auto &o : alpha) {
                    if (o.k == 'W' && wk[o.a].special >= 2) continue; // content classes do not matter to the rotation protocol
                    if (!h.empty() && o.k == 'D' && h.back().k == 'D') continue;
                    if (!h.empty() && o.k == 'R' && (h.back().k == 'R' || h.back().k == 'Q')) continue;   // a restart right after a restart changes nothing
                    if (!h.empty() && o.k == 'Q' && h.back().k == 'R') continue;                            // R;Q is Q
                    if (!h.empty() && o.k == 'Q' && h.back().k == 'Q' && h.back().a >= o.a) continue;        // Qc;Qs once (Qs;Qc is the same state, Qx;Qx is R)
                    if (h.empty() && (o.k == 'R' || o.k == 'Q')) continue;
                    auto h2 = h; h2.push_back(o); nxt.push_back(h2); hists.push_back(h2);
                }
                cur.swap(nxt);
            }
        }
        for (auto &h : hists) {
            bool hasW = false; for (auto &o : h) if (o.k == 'W') hasW = true;
            if (!hasW) continue; // nothing to rotate
            for (size_t fi = 0; fi < wk.size(); fi++) {
                if (wk[fi].special >= 2) continue;
                if ((caseNo++ % nshards) != shard) continue;
                Op fin { 'W', (int)fi };
                std::string hs = histStr(h, wk) + " | " + wk[fi].label;
                // 1. fault-free reference run: number and names of the mutating calls of the final operation
                wipe(g_dir);
                forkDo([&] { childRun(cfg, h, fin, wk, CrashPlan(), g_dir); });
                long M = g_sh->mutCount;
                std::vector<std::string> calls;
                for (int i = 0; i < g_sh->nCalls; i++) calls.push_back(g_sh->calls[i]);
                if ((long)calls.size() != M) { fprintf(stderr, "ENGINE: %ld mutating calls counted, %zu logged for %s\n", M, calls.size(), hs.c_str()); exit(3); }
                collect(cfg, hs, "nofault", "");
                sum.counters["final_ops_examined"]++;
                bool rotates = false;
                for (auto &c : calls) if (c.compare(0, 6, "rename") == 0 || c.compare(0, 4, "link") == 0) rotates = true;
                if (!rotates) continue;
                sum.counters["rotating_final_ops"]++;
                if (sum.samples.size() < 3) { std::string cs; for (auto &c : calls) cs += c + "; "; sum.sample("{\"config\":" + cfg.json() + ",\"history\":" + vx::jstr(hs) + ",\"mutating_calls_of_final_op\":" + vx::jstr(cs) + "}"); }
                // 2. crash before each mutating call
                for (long k = 1; k <= M; k++) {
                    CrashPlan pl; pl.crashAt = k;
                    wipe(g_dir);
                    forkDo([&] { childRun(cfg, h, fin, wk, pl, g_dir); });
                    if (g_sh->mutCount != k) { fprintf(stderr, "ENGINE: crash point %ld not reached (%ld) in %s\n", k, g_sh->mutCount, hs.c_str()); exit(3); }
                    sum.cases++; sum.transitions++; sum.counters["crash_points"]++;
                    std::string at = hs + " : crash before call " + std::to_string(k) + "/" + std::to_string(M) + " (" + calls[k - 1] + ")";
                    std::string extra = ",\"crash_at\":" + std::to_string(k);
                    collect(cfg, at, "crash", extra);
                    crashSigs.insert(std::to_string(g_sh->stateHash)); // distinct directory states left behind by a crash
                    sum.outcomes.insert(calls[k - 1].substr(0, calls[k - 1].find(' ')) + "/" + std::to_string(g_sh->rotFiles) + "/" + cfg.str().substr(cfg.str().find("opts")));
                    RestartInfo ri;
                    auto importTimes = [&] { ri.nowMs = g_sh->nowMs; ri.times.clear(); for (int i = 0; i < g_sh->nTimes; i++) ri.times.push_back({ g_sh->tname[i], g_sh->tms[i] }); };
                    importTimes();
                    // restart the same day and the next day; the second restart runs on the directory the first one left (a longer history)
                    for (int later = 0; later < 2; later++) {
                        forkDo([&] { childRestart(cfg, g_dir, ri, later); });
                        sum.transitions += 4; sum.counters["restarts_after_crash"]++;
                        collect(cfg, at + (later ? ", then restart + 3 writes, then restart next day + 3 writes" : ", then restart + 3 writes"), "restart", extra);
                        importTimes();
                    }
                }
                // 3. single failures of rename / link / unlink / creation of the compressed file
                for (long k = 1; k <= M; k++) {
                    const std::string &cn = calls[k - 1];
                    bool isGzOpen = cn.compare(0, 4, "open") == 0 && cn.size() > 3 && cn.compare(cn.size() - 3, 3, ".gz") == 0;
                    bool isReadOpen = cn.compare(0, 6, "openrd") == 0;      // the compression step cannot read the rotated file back (descriptor limit, permissions)
                    bool target = cn.compare(0, 6, "rename") == 0 || cn.compare(0, 4, "link") == 0 || cn.compare(0, 6, "unlink") == 0 || isGzOpen || isReadOpen;
                    if (!target) continue;
                    for (int en : { EACCES, ENOSPC }) {
                        if (en == ENOSPC && !isGzOpen && cn.compare(0, 6, "rename") != 0) continue;
                        CrashPlan pl; pl.failAt = k; pl.failErrno = en;
                        wipe(g_dir);
                        forkDo([&] { childRun(cfg, h, fin, wk, pl, g_dir); });
                        if (!g_sh->failedFlag) { fprintf(stderr, "ENGINE: fault %ld not injected in %s\n", k, hs.c_str()); exit(3); }
                        sum.cases++; sum.transitions += 5; sum.counters["faults_injected"]++;
                        collect(cfg, hs + " : call " + std::to_string(k) + " (" + cn + ") fails with errno " + std::to_string(en) + ", then 3 more writes", "fault", ",\"fail_at\":" + std::to_string(k) + ",\"errno\":" + std::to_string(en));
                        crashSigs.insert("fail-" + cn.substr(0, cn.find(' ')) + "/" + std::to_string(g_sh->rotFiles));
                    }
                    if (!isReadOpen) {   // the operation as a whole fails: from this call on the directory is read-only for the rest of the write (rename, link, unlink and file
                        // creation fail; data writes to existing files still work), then the condition clears and 3 more records are written
                        CrashPlan pl; pl.failFrom = k; pl.failErrno = EACCES;
                        wipe(g_dir);
                        forkDo([&] { childRun(cfg, h, fin, wk, pl, g_dir); });
                        if (!g_sh->failedFlag) { fprintf(stderr, "ENGINE: persistent fault %ld not injected in %s\n", k, hs.c_str()); exit(3); }
                        sum.cases++; sum.transitions += 5; sum.counters["persistent_faults_injected"]++;
                        collect(cfg, hs + " : from call " + std::to_string(k) + " (" + cn + ") on, every directory-modifying call of this write fails (read-only directory), then 3 more writes", "fault", ",\"fail_from\":" + std::to_string(k));
                    }
                }
            }
        }
    }
    sum.states = (long long)crashSigs.size();
    sum.counters["distinct_crash_directory_states"] = (long long)crashSigs.size();
}

} // namespace

int main(int argc, char **argv)
{
    setenv("TZ", "UTC", 1);
    tzset();
    std::string mode = vx::argStr(argc, argv, "--mode", "hist");
    int depth = vx::argInt(argc, argv, "--depth", 3);
    int shard = vx::argInt(argc, argv, "--shard", 0), nshards = vx::argInt(argc, argv, "--nshards", 1);
    int maxDay = vx::argInt(argc, argv, "--maxday", 2);
    g_reduced = vx::argInt(argc, argv, "--reduced", 0) != 0;
    g_lag = vx::argInt(argc, argv, "--lag", 0) != 0;
    g_reconf = vx::argInt(argc, argv, "--reconf", 0) != 0;
    g_onlyProp = vx::argStr(argc, argv, "--only-prop", "");
    { int dl = vx::argInt(argc, argv, "--deadline-s", 0); if (dl > 0) g_deadline = realNow() + dl; }
    std::vector<Config> cfgs;
    for (auto &c : QString::fromLatin1(vx::argStr(argc, argv, "--configs", "5,3,0,0,0")).split(';', Qt::SkipEmptyParts)) cfgs.push_back(parseConfig(c.toStdString()));
    char tmpl[] = "/dev/shm/verif-vfs-XXXXXX";
    if (!mkdtemp(tmpl)) { perror("mkdtemp"); return 3; }
    g_dir = tmpl;
    vx::Summary sum;
    if (mode == "hist") {
        sum.bound = "histories <= " + std::to_string(depth) + " ops over {W x write kinds, D1.." + std::to_string(maxDay) + ", R} on " + std::to_string(cfgs.size()) + " configurations";
        modeHist(cfgs, depth, maxDay, shard, nshards, sum);
    } else if (mode == "long") {
        int writes = vx::argInt(argc, argv, "--writes", 12);
        sum.bound = std::to_string(writes) + " consecutive rotating writes (3 variants) on " + std::to_string(cfgs.size()) + " configurations";
        modeLong(cfgs, writes, sum);
    } else if (mode == "gz") {
        std::vector<long> sizes;
        for (auto &s : QString::fromLatin1(vx::argStr(argc, argv, "--sizes", "1,2,10")).split(',', Qt::SkipEmptyParts)) sizes.push_back(s.toLong());
        sum.bound = std::to_string(sizes.size()) + " sizes x " + std::to_string(vx::argInt(argc, argv, "--gens", 6)) + " generators + records <= 2 symbols over 12";
        modeGz(sizes, vx::argInt(argc, argv, "--gens", 6), shard, nshards, vx::argInt(argc, argv, "--alpha", 1), sum);
    } else if (mode == "gzkeep") { // one case of the C08 family, directory kept for an external decoder
        std::string keep = vx::argStr(argc, argv, "--keep", "");
        long n = atol(vx::argStr(argc, argv, "--sizes", "10"));
        int gen = vx::argInt(argc, argv, "--gen", 0);
        Config cfg; cfg.L = 0; cfg.N = 0; cfg.opts = 1 | 4; cfg.decoys = false;
        {
            World w; w.start(cfg, keep);
            QString text = genContent(gen, n - 1);
            w.writeText(text); w.closeSink(); w.open(); w.writeText(QStringLiteral("next")); w.closeSink();
            vdev::preMutate = nullptr; vdev::active = false;
            QByteArray e = text.toUtf8() + "\n";
            putFile(keep + "/expected.bin", std::string(e.constData(), (size_t)e.size()));
        }
        sum.cases = 1; sum.states = 1; sum.transitions = 2;
        sum.print();
        rmdir(g_dir.c_str());
        return 0;
    } else if (mode == "crash") {
        sum.bound = "prefix histories <= " + std::to_string(depth) + " + final write; every mutating call = crash point; single failures of rename/link/unlink/create";
        modeCrash(cfgs, depth, shard, nshards, sum);
    } else if (mode == "replay") {
        Config cfg = cfgs[0];
        auto wk = writeKinds(cfg);
        std::vector<Op> h;
        if (!parseHistory(vx::argStr(argc, argv, "--history", ""), wk, h)) { fprintf(stderr, "bad history\n"); return 3; }
        RunResult rr = runHistory(cfg, h, wk, true);
        sum.cases = 1; sum.states = 1; sum.transitions = (long long)h.size();
        for (size_t i = 0; i < rr.trace.size(); i++) fprintf(stderr, "after op %zu: %s\n", i + 1, rr.trace[i].c_str());
        for (auto &v : rr.viols) addViol(sum, cfg, histStr(h, wk), v, "hist");
    }
    vdev::active = false;
    wipe(g_dir);
    rmdir(g_dir.c_str());
    sum.print();
    return 0;
}
