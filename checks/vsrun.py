"""Runner for engine vsched (preemption-bounded schedule exploration of the real threading code)."""
import os
import vlib
import seqxrun

VQ = os.path.join(vlib.VERIF, "engine", "vsched")
RETARGET = ["-include", os.path.join(VQ, "vqt_retarget.h"), "-I" + VQ]


def build(flavour="plain"):
    lib = vlib.build_lib(flavour, variant="vq", per_file_flags={"logger.cpp": RETARGET, "configure.cpp": RETARGET})
    srcs = [(os.path.join(VQ, "vsx.cpp"), RETARGET + ["-fno-access-control"]), os.path.join(VQ, "vqt.cpp"), os.path.join(VQ, "vsched.cpp")]
    return vlib.build_exe("vsx", srcs, flavour, lib, extra_flags=["-I" + VQ, "-I" + os.path.join(vlib.VERIF, "engine", "seqx")], variant="vq")


def classify_frames(frames):
    """frames: [(function, path)] from the access outwards (inlined frames expanded). -> the library function that performs this
    access, or None when the access belongs to the scheduler, the Qt model or the harness. Frames in system headers / the
    sanitizer runtime are skipped, but if one of them is a template over a scheduler or model type (vs::, vqt::) the access is
    the model's. The first remaining frame decides: a path under <repo>/src (or a QtLogger:: function without line
    information) = library code."""
    repo_src = os.path.join(os.path.realpath(vlib.REPO), "src")
    for fn, path in frames:
        if "vs::" in fn or "vqt::" in fn or "/verif/engine/" in path:
            return None
        if path.startswith("/usr/") or "libsanitizer" in path or path.startswith("../") or path.startswith("./"):
            continue
        if path.startswith(repo_src) or os.path.realpath(path).startswith(repo_src):
            return fn
        if path in ("<null>", "??", ""):
            if fn.startswith("QtLogger::"):
                return fn
            continue
        return None
    return None


def symbolize(exe, offsets):
    """module offsets of the executable -> [(function, path)] inline chain, innermost first (one addr2line call)"""
    import subprocess
    if not offsets:
        return {}
    offs = sorted(offsets)
    r = subprocess.run(["addr2line", "-a", "-f", "-C", "-i", "-e", exe] + ["0x%x" % o for o in offs], capture_output=True, text=True, timeout=600)
    out, cur = {}, None
    lines = r.stdout.splitlines()
    i = 0
    while i < len(lines):
        l = lines[i]
        if l.startswith("0x") and " " not in l:
            cur = int(l, 16)
            out[cur] = []
            i += 1
            continue
        if cur is not None and i + 1 < len(lines):
            out[cur].append((l, lines[i + 1].rsplit(":", 1)[0]))
            i += 2
            continue
        i += 1
    return out


def race_pass(scenarios, tier, prop="race"):
    """ThreadSanitizer UNDER the serialising scheduler: the same scenario bodies, every explored schedule race-checked. The
    scheduler's baton is a raw futex in an uninstrumented translation unit, so the only happens-before edges the detector sees
    are those announced by the Qt model for real synchronisation (VQT_ACQ / VQT_REL). A report counts only if BOTH accesses
    are made by library code (innermost frame outside std:: lies in namespace QtLogger): races on the model's or the harness's
    own bookkeeping are expected (they are serialised by the invisible baton) and dropped.
    -> (violations, coverage dict)"""
    import glob, re, shutil, subprocess, tempfile
    lib = vlib.build_lib("tsan", variant="vq", per_file_flags={"logger.cpp": RETARGET, "configure.cpp": RETARGET})
    srcs = [(os.path.join(VQ, "vsx.cpp"), RETARGET + ["-fno-access-control"]), os.path.join(VQ, "vqt.cpp"),
            (os.path.join(VQ, "vsched.cpp"), ["-fno-sanitize=thread"])]
    exe = vlib.build_exe("vsx", srcs, "tsan", lib, extra_flags=["-I" + VQ, "-I" + os.path.join(vlib.VERIF, "engine", "seqx")], variant="vq")
    root = tempfile.mkdtemp(prefix="verif-tsan-", dir="/dev/shm")
    viols, execs, reports, dropped, terminated_execs = [], 0, 0, 0, 0
    try:
        def one(i_sc):
            i, sc = i_sc
            d = os.path.join(root, "s%d" % i)
            os.makedirs(d)
            args = []
            for k, v in sc.items():
                if not k.startswith("_"):
                    args += ["--" + k, str(v)]
            env = dict(os.environ, VQT_RANGE_DIR=d, TSAN_OPTIONS="log_path=%s/tsan symbolize=0 halt_on_error=0 exitcode=0 report_signal_unsafe=0 history_size=4 die_after_fork=0 atexit_sleep_ms=0" % d)
            r = subprocess.run([exe] + args, capture_output=True, text=True, env=env, timeout=3000)
            js = None
            for line in reversed(r.stdout.strip().splitlines()):
                if line.startswith("{"):
                    try:
                        js = json.loads(line)
                        break
                    except ValueError:
                        pass
            return sc, d, r.returncode, js, r.stderr[-1500:]
        import concurrent.futures, json
        jobs = []
        import time
        # one deadline for the whole race pass as well (ThreadSanitizer executions are ~4x slower; on a busy machine the thorough pass
        # took 39 minutes before the main exploration even began): shards that are cut report exhaustive:false
        at = int(time.time() + (300 if tier == "quick" else 900))
        for sc in scenarios:
            n = sc.get("_shards", vlib.NCPU if sc.get("bound", 0) >= 1 else 1)
            for i in range(n):
                j = dict(sc); j["shard"] = i; j["nshards"] = n; j["deadline-at"] = at
                jobs.append(j)
        with concurrent.futures.ThreadPoolExecutor(max_workers=vlib.NCPU) as ex:
            results = list(ex.map(one, enumerate(jobs)))
        seen = set()
        cand = []          # (scenario, report text, [frames of access 1], [frames of access 2]) with frames as module offsets
        offsets = set()
        exe_name = os.path.basename(exe)
        for sc, d, rc, js, err in results:
            if rc != 0 or js is None:
                raise vlib.EngineError("race pass: scenario %r failed rc=%r %s" % (sc, rc, err))
            execs += js.get("cases", 0)
            for f in glob.glob(os.path.join(d, "tsan.*")):
                txt = open(f, errors="replace").read()
                ranges, killed = [], False
                try:
                    for l in open(os.path.join(d, "ranges." + f.rsplit(".", 1)[1])):
                        if l.startswith("TERMINATE"):
                            killed = True
                            continue
                        a, b = l.split()
                        ranges.append((int(a, 16), int(b, 16)))
                except OSError:
                    pass
                if killed:
                    terminated_execs += 1
                    continue            # QThread::terminate() ran (wait(3000) timed out as a deviation): a killed thread orders nothing, by design
                for rep in txt.split("==================")[1:]:
                    if "WARNING: ThreadSanitizer: data race" not in rep:
                        continue
                    reports += 1
                    m = re.search(r"of size \d+ at (0x[0-9a-f]+)", rep)
                    addr = int(m.group(1), 16) if m else 0
                    if any(lo <= addr < hi for lo, hi in ranges):
                        dropped += 1          # the racing location is a field of a model object (lock word, atomic value, QObject base ...)
                        continue
                    blocks = re.split(r"\n\s*\n", rep)
                    acc = [b for b in blocks if re.search(r"(Write|Read|write|read) of size", "\n".join(b.strip().split("\n")[:2]))]
                    if len(acc) < 2:
                        dropped += 1
                        continue
                    fr = []
                    for b in acc[:2]:
                        one_acc = []
                        for mm in re.finditer(r"#\d+ .*?\((\S+?)\+0x([0-9a-f]+)\)", b):
                            mod, off = mm.group(1), int(mm.group(2), 16)
                            one_acc.append((mod, off))
                            if os.path.basename(mod) == exe_name:
                                offsets.add(off)
                        fr.append(one_acc)
                    cand.append((sc, rep, fr))
        sym = symbolize(exe, offsets)
        for sc, rep, fr in cand:
            tops = []
            for one_acc in fr:
                frames = []
                for mod, off in one_acc:
                    if os.path.basename(mod) == exe_name:
                        frames += sym.get(off, [("??", "??")])
                    else:
                        frames.append(("runtime", "/usr/lib/" + os.path.basename(mod)))
                tops.append(classify_frames(frames))
            if all(tops):
                key = "data-race:" + " / ".join(sorted(re.sub(r"\(.*", "", t)[:80] for t in tops))
                if key not in seen:
                    seen.add(key)
                    viols.append({"key": key, "what": "scenario %s: ThreadSanitizer reports a data race between library code %s and %s that no lock / atomic / event hand-off orders" % (
                        " ".join("%s=%s" % kv for kv in sc.items() if not kv[0].startswith("_")), tops[0], tops[1]),
                        "replay": vlib.write_replay(prop, "race-%d" % len(viols), {"scenario": {k: v for k, v in sc.items() if not k.startswith("_")}, "accesses": tops, "report": rep[:3000]})})
            else:
                dropped += 1
    finally:
        shutil.rmtree(root, ignore_errors=True)
    return viols, {"race_pass_executions": execs, "race_reports_total": reports, "race_reports_on_model_or_harness_data_dropped": dropped, "race_reports_in_library_code": len(viols), "executions_left_out_because_a_thread_was_terminated": terminated_execs}


def scenario_args(sc, nshards, deadline_s, deadline_at=0):
    """sc: dict(scenario=..., p=, m=, backlog=, racer=, cycles=, glib=, bound=)"""
    base = []
    for k, v in sc.items():
        if not k.startswith("_"):
            base += ["--" + k, v]
    if deadline_s:
        base += ["--deadline-s", int(deadline_s)]
    if deadline_at:
        base += ["--deadline-at", int(deadline_at)]
    return [base + ["--shard", i, "--nshards", nshards] for i in range(nshards)]


def run_scenarios(exe, scenarios, deadline_s=0, shards_per=None):
    """all shards of all scenarios in one pool; returns (per-scenario merged totals, failures)"""
    args, owner = [], []
    import time
    # ONE deadline for all shards of all scenarios (they share a pool of NCPU workers and run one after another): the check as a whole
    # ends in bounded time; what was cut is reported per scenario (exhaustive:false)
    at = time.time() + deadline_s if deadline_s else 0
    for si, sc in enumerate(scenarios):
        n = sc.get("_shards") or shards_per or (vlib.NCPU if sc.get("bound", 2) >= 2 else 1)
        for a in scenario_args(sc, n, deadline_s, at):
            args.append(a); owner.append(si)
    parts = seqxrun.run_shards(exe, args, max(600, (deadline_s or 0) + 300))
    fails = [p for p in parts if "_crash" in p or "_timeout" in p]
    per = []
    for si, sc in enumerate(scenarios):
        mine = [p for p, o in zip(parts, owner) if o == si and p not in fails]
        tot = seqxrun.merge(mine)
        outs = set()
        tot["scenario"] = sc
        per.append(tot)
    return per, fails


def conformance():
    """bind the vqt model to the installed Qt: engine/procx/qtconf.cpp checks rules R1..R10 on the real QThread/QCoreApplication
    under both event dispatchers. A rule that does not hold here invalidates the model: engine error (after retries: the
    mini-programs use short sleeps and may be starved on a loaded machine)."""
    import subprocess
    exe = vlib.build_exe("qtconf", [os.path.join(vlib.VERIF, "engine", "procx", "qtconf.cpp")], "plain", [])
    ok_lines, problems = set(), []
    for disp in ("glib", "unix"):
        for g in "abc":
            for attempt in range(4):
                env = dict(os.environ, LC_ALL="C.UTF-8")
                if disp == "unix":
                    env["QT_NO_GLIB"] = "1"
                try:
                    r = subprocess.run([exe, g], capture_output=True, text=True, timeout=120, env=env)
                    out, rc = r.stdout, r.returncode
                except subprocess.TimeoutExpired:
                    out, rc = "", "timeout"
                if rc == 0:
                    for l in out.splitlines():
                        if l.split()[1:2] == ["ok"]:
                            ok_lines.add((disp, l.split()[0]))
                    break
            else:
                problems.append("%s dispatcher, group %s: %s" % (disp, g, out.replace("\n", " | ")[-300:]))
    if problems:
        raise vlib.EngineError("the installed Qt does not follow a rule the vqt model relies on: " + "; ".join(problems))
    return len(ok_lines)


def vs_check(prop, tier, scenarios, rule, assumptions, deadline_s, flavour="plain", extra_violations=None, extra_cov=None, min_outcomes=None, race_scenarios=None):
    t = vlib.Timer()
    nrules = conformance()
    if race_scenarios:
        rv, rc = race_pass(race_scenarios, tier, prop)
        extra_violations = (extra_violations or []) + rv
        extra_cov = dict(extra_cov or {})
        extra_cov["race_pass"] = rc
        rule += (" RACE PASS: the same scenario bodies are explored a second time in a ThreadSanitizer build under the same serialising scheduler (its hand-offs are a raw futex in an "
                 "uninstrumented file and therefore invisible to the detector; the Qt model announces exactly the happens-before edges of real synchronisation: lock/unlock, acquire/release "
                 "atomics, event post -> delivery, thread start, thread finish -> wait); every explored schedule is race-checked and a report counts when both accesses are made by library code "
                 "on memory that is not a field of a model object")
    exe = build(flavour)
    per, fails = run_scenarios(exe, scenarios, deadline_s)
    tot = seqxrun.merge([])
    table = []
    for sc_tot in per:
        sc = sc_tot["scenario"]
        for k in ("cases", "states", "transitions", "replays_ok", "violation_count"):
            tot[k] += sc_tot[k]
        tot["exhaustive"] = tot["exhaustive"] and sc_tot["exhaustive"]
        for k, v in sc_tot["counters"].items():
            tot["counters"][k] = tot["counters"].get(k, 0) + v
        tot["violations"] += sc_tot["violations"]
        tot["samples"] += sc_tot["samples"][:1]
        table.append({"scenario": " ".join("%s=%s" % (k, os.path.basename(str(v))) for k, v in sc.items() if not k.startswith("_")) + (" (%d histories)" % sc["_nhist"] if "_nhist" in sc else ""), "executions": sc_tot["cases"], "schedule_points": sc_tot["transitions"],
                      "distinct_outcomes_max_per_shard": sc_tot["distinct_outcomes"], "exhaustive": sc_tot["exhaustive"]})
        tot["distinct_outcomes"] += sc_tot["distinct_outcomes"]
        if min_outcomes and not fails and sc_tot["exhaustive"] and sc.get("p", 1) >= 2 and sc_tot["distinct_outcomes"] < min_outcomes:
            raise vlib.EngineError("vacuous exploration: scenario %r produced %d distinct outcome(s)" % (sc, sc_tot["distinct_outcomes"]))
    if not fails and tot["counters"].get("blocked_lock_events", 0) == 0:
        raise vlib.EngineError("vacuous exploration: no thread was ever blocked")
    tot["bound"] = "%d scenarios, deviations <= %s" % (len(scenarios), "/".join(sorted(set(str(s.get("bound", 2)) for s in scenarios))))
    cov = {"scenarios": table, "deadlocks": tot["counters"].get("deadlocks", 0), "livelocks": tot["counters"].get("livelocks", 0),
           "conformance_rules_checked_on_installed_qt": nrules}
    cov.update(extra_cov or {})
    return seqxrun.finish(prop, tier, "model_checking", tot, t, rule, assumptions, fails, extra_cov=cov, extra_violations=extra_violations)


def replay(prop, path):
    import json
    exe = build()
    case = json.load(open(path))["case"]
    args = []
    for k in ("scenario", "p", "m", "backlog", "racer", "cycles", "glib", "hist", "racer-at", "nested", "racer-reset"):
        if k in case and case[k] != "":
            args += ["--" + k, case[k]]
    import subprocess
    r = subprocess.run([exe] + [str(a) for a in args] + ["--replay", case["choices"]], capture_output=True, text=True, timeout=300)
    print(r.stderr[-6000:])
    print(r.stdout[-3000:])
    try:
        res = json.loads(r.stdout.strip().splitlines()[-1])
    except Exception:
        return 3
    return 1 if res.get("violation_count") else 0


VS_ASSUMPTIONS = [
    "interleavings are those of a sequentially consistent machine whose atomic steps are the blocks between synchronisation operations (lock/unlock, atomics, post, event-loop dequeue, thread start/quit/wait, sleep) plus yield points inside harness handlers; unsynchronised accesses inside a block are not interleaved",
    "Qt's thread/event-loop semantics are modelled by rules R1-R11 of DESIGN.md §3.3 (engine/vsched/vqt.cpp); R1-R10 are re-checked on the installed Qt by engine/procx/qtconf.cpp in every run (both event dispatchers)",
    "timed waits fire only as a counted deviation or when nothing else can run; QThread::terminate ends the thread where it is",
    "stateless search: states = complete executions (distinct schedules), transitions = schedule points",
]
