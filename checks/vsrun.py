"""Runner for engine vsched (preemption-bounded schedule exploration of the real threading code)."""
import os
import vlib
import seqxrun

VQ = os.path.join(vlib.VERIF, "engine", "vsched")
RETARGET = ["-include", os.path.join(VQ, "vqt_retarget.h"), "-I" + VQ]


def build(flavour="plain"):
    lib = vlib.build_lib(flavour, variant="vq", per_file_flags={"logger.cpp": RETARGET, "configure.cpp": RETARGET})
    srcs = [(os.path.join(VQ, "vsx.cpp"), RETARGET + ["-fno-access-control"]), os.path.join(VQ, "vqt.cpp"), os.path.join(VQ, "vsched.cpp")]
    return vlib.build_exe("vsx", srcs, flavour, lib, extra_flags=["-I" + VQ, "-I" + os.path.join(vlib.VERIF, "engine", "seqx")], variant="vq")


def scenario_args(sc, nshards, deadline_s):
    """sc: dict(scenario=..., p=, m=, backlog=, racer=, cycles=, glib=, bound=)"""
    base = []
    for k, v in sc.items():
        if not k.startswith("_"):
            base += ["--" + k, v]
    if deadline_s:
        base += ["--deadline-s", int(deadline_s)]
    return [base + ["--shard", i, "--nshards", nshards] for i in range(nshards)]


def run_scenarios(exe, scenarios, deadline_s=0, shards_per=None):
    """all shards of all scenarios in one pool; returns (per-scenario merged totals, failures)"""
    args, owner = [], []
    for si, sc in enumerate(scenarios):
        n = sc.get("_shards") or shards_per or (vlib.NCPU if sc.get("bound", 2) >= 2 else 1)
        for a in scenario_args(sc, n, deadline_s):
            args.append(a); owner.append(si)
    parts = seqxrun.run_shards(exe, args, max(600, (deadline_s or 0) + 300))
    fails = [p for p in parts if "_crash" in p or "_timeout" in p]
    per = []
    for si, sc in enumerate(scenarios):
        mine = [p for p, o in zip(parts, owner) if o == si and p not in fails]
        tot = seqxrun.merge(mine)
        outs = set()
        tot["scenario"] = sc
        per.append(tot)
    return per, fails


def conformance():
    """bind the vqt model to the installed Qt: engine/procx/qtconf.cpp checks rules R1..R10 on the real QThread/QCoreApplication
    under both event dispatchers. A rule that does not hold here invalidates the model: engine error (after retries: the
    mini-programs use short sleeps and may be starved on a loaded machine)."""
    import subprocess
    exe = vlib.build_exe("qtconf", [os.path.join(vlib.VERIF, "engine", "procx", "qtconf.cpp")], "plain", [])
    ok_lines, problems = set(), []
    for disp in ("glib", "unix"):
        for g in "abc":
            for attempt in range(4):
                env = dict(os.environ, LC_ALL="C.UTF-8")
                if disp == "unix":
                    env["QT_NO_GLIB"] = "1"
                try:
                    r = subprocess.run([exe, g], capture_output=True, text=True, timeout=120, env=env)
                    out, rc = r.stdout, r.returncode
                except subprocess.TimeoutExpired:
                    out, rc = "", "timeout"
                if rc == 0:
                    for l in out.splitlines():
                        if l.split()[1:2] == ["ok"]:
                            ok_lines.add((disp, l.split()[0]))
                    break
            else:
                problems.append("%s dispatcher, group %s: %s" % (disp, g, out.replace("\n", " | ")[-300:]))
    if problems:
        raise vlib.EngineError("the installed Qt does not follow a rule the vqt model relies on: " + "; ".join(problems))
    return len(ok_lines)


def vs_check(prop, tier, scenarios, rule, assumptions, deadline_s, flavour="plain", extra_violations=None, extra_cov=None, min_outcomes=None):
    t = vlib.Timer()
    nrules = conformance()
    exe = build(flavour)
    per, fails = run_scenarios(exe, scenarios, deadline_s)
    tot = seqxrun.merge([])
    table = []
    for sc_tot in per:
        sc = sc_tot["scenario"]
        for k in ("cases", "states", "transitions", "replays_ok", "violation_count"):
            tot[k] += sc_tot[k]
        tot["exhaustive"] = tot["exhaustive"] and sc_tot["exhaustive"]
        for k, v in sc_tot["counters"].items():
            tot["counters"][k] = tot["counters"].get(k, 0) + v
        tot["violations"] += sc_tot["violations"]
        tot["samples"] += sc_tot["samples"][:1]
        table.append({"scenario": " ".join("%s=%s" % (k, os.path.basename(str(v))) for k, v in sc.items() if not k.startswith("_")) + (" (%d histories)" % sc["_nhist"] if "_nhist" in sc else ""), "executions": sc_tot["cases"], "schedule_points": sc_tot["transitions"],
                      "distinct_outcomes_max_per_shard": sc_tot["distinct_outcomes"], "exhaustive": sc_tot["exhaustive"]})
        tot["distinct_outcomes"] += sc_tot["distinct_outcomes"]
        if min_outcomes and not fails and sc_tot["exhaustive"] and sc.get("p", 1) >= 2 and sc_tot["distinct_outcomes"] < min_outcomes:
            raise vlib.EngineError("vacuous exploration: scenario %r produced %d distinct outcome(s)" % (sc, sc_tot["distinct_outcomes"]))
    if not fails and tot["counters"].get("blocked_lock_events", 0) == 0:
        raise vlib.EngineError("vacuous exploration: no thread was ever blocked")
    tot["bound"] = "%d scenarios, deviations <= %s" % (len(scenarios), "/".join(sorted(set(str(s.get("bound", 2)) for s in scenarios))))
    cov = {"scenarios": table, "deadlocks": tot["counters"].get("deadlocks", 0), "livelocks": tot["counters"].get("livelocks", 0),
           "conformance_rules_checked_on_installed_qt": nrules}
    cov.update(extra_cov or {})
    return seqxrun.finish(prop, tier, "model_checking", tot, t, rule, assumptions, fails, extra_cov=cov, extra_violations=extra_violations)


def replay(prop, path):
    import json
    exe = build()
    case = json.load(open(path))["case"]
    args = []
    for k in ("scenario", "p", "m", "backlog", "racer", "cycles", "glib", "hist", "racer-at"):
        if k in case and case[k] != "":
            args += ["--" + k, case[k]]
    import subprocess
    r = subprocess.run([exe] + [str(a) for a in args] + ["--replay", case["choices"]], capture_output=True, text=True, timeout=300)
    print(r.stderr[-6000:])
    print(r.stdout[-3000:])
    try:
        res = json.loads(r.stdout.strip().splitlines()[-1])
    except Exception:
        return 3
    return 1 if res.get("violation_count") else 0


VS_ASSUMPTIONS = [
    "interleavings are those of a sequentially consistent machine whose atomic steps are the blocks between synchronisation operations (lock/unlock, atomics, post, event-loop dequeue, thread start/quit/wait, sleep) plus yield points inside harness handlers; unsynchronised accesses inside a block are not interleaved",
    "Qt's thread/event-loop semantics are modelled by rules R1-R11 of DESIGN.md §3.3 (engine/vsched/vqt.cpp); R1-R10 are re-checked on the installed Qt by engine/procx/qtconf.cpp in every run (both event dispatchers)",
    "timed waits fire only as a counted deviation or when nothing else can run; QThread::terminate ends the thread where it is",
    "stateless search: states = complete executions (distinct schedules), transitions = schedule points",
]
