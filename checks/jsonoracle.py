"""Independent oracle for C13 (JsonFormatter) and C18 (SentryFormatter): the formatter output (bytes) is parsed
by Python's json module and compared field by field with the expectation the explorer built from the INPUTS.
Streams the explorer's stdout; one worker process per shard."""
import calendar
import concurrent.futures
import json
import os
import re
import subprocess
import time

import seqxrun
import vlib

BUILTIN = ("type", "line", "file", "function", "category", "message", "time", "threadId")


class Dup(Exception):
    pass


def _pairs(pairs):
    d = {}
    for k, v in pairs:
        if k in d:
            raise Dup(k)
        d[k] = v
    return d


def _bad_const(c):
    raise ValueError("non-JSON constant " + c)


def parse(out):
    """strict: one value, no duplicate keys, no NaN/Infinity, UTF-8"""
    txt = out.decode("utf-8")           # UnicodeDecodeError -> invalid
    return json.loads(txt, object_pairs_hook=_pairs, parse_constant=_bad_const), txt


def same(a, e):
    """value equality: numbers by value (never bool), strings exactly, containers recursively"""
    if isinstance(e, bool) or isinstance(a, bool):
        return isinstance(a, bool) and isinstance(e, bool) and a == e
    if isinstance(e, (int, float)):
        return isinstance(a, (int, float)) and float(a) == float(e) and (not isinstance(a, int) or not isinstance(e, int) or a == e)
    if isinstance(e, str):
        return isinstance(a, str) and a == e
    if e is None:
        return a is None
    if isinstance(e, list):
        return isinstance(a, list) and len(a) == len(e) and all(same(x, y) for x, y in zip(a, e))
    if isinstance(e, dict):
        return isinstance(a, dict) and set(a) == set(e) and all(same(a[k], e[k]) for k in e)
    return False


def short(x, n=120):
    s = json.dumps(x, ensure_ascii=True)
    return s if len(s) <= n else s[:n] + "..."


def check_json(meta, out):
    """-> list of (key, what)"""
    v = []
    try:
        obj, txt = parse(out)
    except Dup as d:
        return [("json:duplicate-key", "output has the key %s twice" % short(str(d)))]
    except Exception as e:     # noqa: BLE001 - any parse failure is the verdict
        return [("json:invalid", "output is not one valid JSON value: %s" % str(e)[:100])]
    if not isinstance(obj, dict):
        return [("json:not-object", "output is not a JSON object")]
    if meta["mode"] == "jc" and ("\n" in txt or "\r" in txt):
        v.append(("json:compact-linebreak", "compact output contains a line break"))
    exp = {"type": meta["type"], "line": meta["line"], "file": meta["file"] or "", "function": meta["function"] or "",
           "category": meta["category"] or "", "message": meta["message"]}
    exp.update(meta["attrs"])
    want = set(exp) | {"time", "threadId"}
    if set(obj) != want:
        miss, extra = sorted(want - set(obj)), sorted(set(obj) - want)
        v.append(("json:keys", "keys differ: missing %s unexpected %s" % (short(miss), short(extra))))
    for k, e in exp.items():
        if k in obj and not same(obj[k], e):
            slot = k if k in BUILTIN else "attribute"
            v.append(("json:value:" + slot, "field %s is %s, expected %s" % (short(k, 40), short(obj[k]), short(e))))
    t = obj.get("time")
    if "time" in obj:
        ms = meta["time_ms"]
        iso = time.strftime("%Y-%m-%dT%H:%M:%S", time.gmtime(ms // 1000))
        if not (isinstance(t, str) and t.startswith(iso)):
            v.append(("json:value:time", "time is %s, message time is %s UTC" % (short(t), iso)))
    return v


SLOT = {"appname": ("tags", "app_name"), "appversion": ("tags", "app_version"), "os_name": ("contexts", "os", "name"),
        "os_version": ("contexts", "os", "version"), "kernel_version": ("contexts", "os", "kernel_version"),
        "build_abi": ("contexts", "os", "build"), "cpu_arch": ("contexts", "device", "arch"), "host_name": ("contexts", "device", "name")}
LEVEL = {"debug": "debug", "info": "info", "warning": "warning", "critical": "error", "fatal": "fatal"}
EXTRA_BUILTIN = ("line", "file", "thread_id")
HEX32 = re.compile(r"^[0-9a-fA-F]{32}$")


def dig(o, path):
    for p in path:
        if not isinstance(o, dict) or p not in o:
            return (False, None)
        o = o[p]
    return (True, o)


def first100(msg):
    """accept-set for 'first 100 characters': 100 UTF-16 code units (with the lone half dropped or replaced when the
    cut splits a pair) or 100 code points"""
    u = msg.encode("utf-16-le")
    acc = {msg[:100]}                                   # code points
    cut = u[:200]
    try:
        acc.add(cut.decode("utf-16-le"))
    except UnicodeDecodeError:
        acc.add(cut[:198].decode("utf-16-le"))          # lone high surrogate dropped
        acc.add(cut[:198].decode("utf-16-le") + "�")
        acc.add(cut[:198].decode("utf-16-le") + msg[len(cut[:198].decode("utf-16-le"))])  # pair kept whole
    return acc


def check_sentry(meta, out, ids):
    v = []
    try:
        obj, txt = parse(out)
    except Dup as d:
        return [("sentry:duplicate-key", "event has the key %s twice" % short(str(d)))]
    except Exception as e:     # noqa: BLE001
        return [("sentry:invalid", "event is not one valid JSON value: %s" % str(e)[:100])]
    if not isinstance(obj, dict):
        return [("sentry:not-object", "event is not a JSON object")]
    eid = obj.get("event_id")
    if not (isinstance(eid, str) and HEX32.match(eid)):
        v.append(("sentry:event_id:shape", "event_id is %s, not 32 hex digits" % short(eid)))
    else:
        if eid.lower() in ids:
            v.append(("sentry:event_id:repeated", "event_id %s was already used by an earlier event" % eid))
        ids.add(eid.lower())
    ms = meta["time_ms"]
    iso = time.strftime("%Y-%m-%dT%H:%M:%S", time.gmtime(ms // 1000))
    ts = obj.get("timestamp")
    okts = isinstance(ts, str) and ts in (iso + "Z", iso + "+00:00", iso + ".000Z")
    if not okts and isinstance(ts, (int, float)) and not isinstance(ts, bool):
        okts = int(ts) == ms // 1000            # the Store API also takes epoch seconds
    if not okts:
        v.append(("sentry:timestamp", "timestamp is %s, message time is %sZ" % (short(ts), iso)))
    if obj.get("level") != LEVEL[meta["type"]]:
        v.append(("sentry:level", "level is %s for a %s message" % (short(obj.get("level")), meta["type"])))
    ok, fm = dig(obj, ("message", "formatted"))
    if not ok or fm != meta["message"]:
        v.append(("sentry:message", "message.formatted is %s, message text is %s" % (short(fm), short(meta["message"]))))
    cat = meta["category"] or ""
    if cat in ("", "default"):
        if "logger" in obj:
            v.append(("sentry:logger", "logger present (%s) for the default category %s" % (short(obj["logger"]), short(meta["category"]))))
    elif obj.get("logger") != cat:
        v.append(("sentry:logger", "logger is %s for category %s" % (short(obj.get("logger")), short(cat))))
    fp = obj.get("fingerprint")
    if not (isinstance(fp, list) and len(fp) == 3 and fp[0] == LEVEL[meta["type"]] and fp[1] == (cat or "default") and fp[2] in first100(meta["message"])):
        v.append(("sentry:fingerprint", "fingerprint is %s for level %s category %s message %s" % (short(fp, 200), LEVEL[meta["type"]], short(cat), short(meta["message"], 60))))
    extra = obj.get("extra") if isinstance(obj.get("extra"), dict) else {}
    for name, e in meta["attrs"].items():
        # (a custom attribute named line / file / thread_id shares its name with a built-in entry of extra: the statement asks for every
        #  custom attribute with its value intact, so the attribute is the one that must be there)
        places = []
        if name in extra:
            places.append(("extra", extra[name]))
        if name in SLOT:
            ok, val = dig(obj, SLOT[name])
            if ok:
                places.append(("/".join(SLOT[name]), val))
        if len(places) != 1:
            v.append(("sentry:attr:" + ("routed" if name in SLOT else "extra") + (":missing" if not places else ":twice"),
                      "attribute %s appears %d times (%s)" % (short(name, 40), len(places), ", ".join(p for p, _ in places))))
        elif not same(places[0][1], e):
            v.append(("sentry:attr:value", "attribute %s arrives as %s in %s, expected %s" % (short(name, 40), short(places[0][1]), places[0][0], short(e))))
    # nothing invented: every key under extra is a built-in or one of ours
    for k in extra:
        if k not in EXTRA_BUILTIN and k not in meta["attrs"]:
            v.append(("sentry:extra:unexpected", "extra carries %s which is no attribute of the message" % short(k, 40)))
    return v


def shard(job):
    exe, args, env, mode = job
    e = dict(os.environ)
    e.update(seqxrun.ASAN_ENV)
    e.update(env)
    p = subprocess.Popen([exe] + [str(a) for a in args], stdout=subprocess.PIPE, stderr=subprocess.PIPE, env=e)
    res = {"checked": 0, "violations": [], "perkey": {}, "violation_count": 0, "ids": set(), "summary": None, "raw_specials": {}, "samples": [], "shapes": set()}
    ids = res["ids"]
    for line in p.stdout:
        if line.startswith(b"C\t"):
            _, m, hx = line.rstrip(b"\n").split(b"\t")
            meta = json.loads(m)
            out = bytes.fromhex(hx.decode())
            vs = check_sentry(meta, out, ids) if meta["mode"] == "s" else check_json(meta, out)
            res["checked"] += 1
            # distinct non-trivial cases: distinct (mode, message, attribute names+values, source location) inputs whose output needed escaping or carried custom attributes
            if meta["attrs"] or any(ord(ch) < 0x20 or ord(ch) > 0x7e or ch in '"\\' for ch in meta["message"]) or meta["file"] is None:
                res["shapes"].add(hash((meta["mode"], meta["message"], json.dumps(meta["attrs"], sort_keys=True), meta["file"], meta["function"], meta["category"], meta["type"])))
            for ch, name in ((b"\xe2\x80\xa8", "raw U+2028"), (b"\xe2\x80\xa9", "raw U+2029"), (b"\xc2\x85", "raw U+0085")):
                if ch in out:
                    res["raw_specials"][name] = res["raw_specials"].get(name, 0) + 1
            if len(res["samples"]) < 2 and res["checked"] % 977 == 5:
                res["samples"].append({"case": meta["desc"], "message": meta["message"][:20], "output": out.decode("utf-8", "replace")[:160]})
            for key, what in vs:
                res["violation_count"] += 1
                n = res["perkey"].get(key, 0)
                res["perkey"][key] = n + 1
                if n < 2:
                    res["violations"].append({"key": key, "what": "[%s, %s] %s" % (meta["mode"], meta["desc"], what),
                                              "replay": {"meta": meta, "output_hex": hx.decode(), "env": env}})
        elif line.startswith(b"{"):
            try:
                res["summary"] = json.loads(line)
            except ValueError:
                pass
    err = p.stderr.read().decode("utf-8", "replace")
    rc = p.wait()
    if rc != 0 or res["summary"] is None:
        res["fail"] = {"_crash": True, "_rc": rc, "_args": args, "_stderr": err[-3000:]}
    return res


def run_all(exe, jobs):
    with concurrent.futures.ProcessPoolExecutor(max_workers=vlib.NCPU) as ex:
        return list(ex.map(shard, [(exe, a, env, m) for (a, env, m) in jobs]))
