"""C03: the asynchronous hand-off preserves content and order, runs sinks only on the worker, never blocks callers on a sink (engine vsched)."""
import os
import vlib
import vsrun

PROP = "C03"


def nested_and_stop(tier):
    """asynchronous histories in which (a) the sink itself logs a message on the logger thread while a backlog is queued, (b) a second
    thread logs while the stop delivers queued messages: first-in-first-out in real time, no sink re-entered, nothing on two threads"""
    hs = ["AMLLL", "AMLLR 3 1", "MLLR 3 1", "MLLR 3 2", "AMLaLLR 6 1"]
    if tier != "quick":
        hs += ["AMLLLR", "AMLL 2 2", "AMLaLLR 5 2", "AMLLLX", "AMLLL 3 2", "MLLLR 4 2", "AMLLaLR 6 2", "AMLRMLL 5 1"]
    p = os.path.join(vlib.BUILD, "c03-hist.txt")
    os.makedirs(vlib.BUILD, exist_ok=True)
    open(p, "w").write("\n".join(hs) + "\n")
    b = 2 if tier == "quick" else 3
    out = []
    for h in hs:          # one exploration per history, each sharded over all cores
        parts = h.split()
        sc = {"scenario": "c04xh", "hist": parts[0], "bound": b, "glib": 1, "nested": 1}
        if len(parts) == 3:
            sc["racer-at"], sc["racer"] = int(parts[1]), int(parts[2])
        out.append(sc)
    out.append({"scenario": "c04xl", "hists-file": p, "bound": b - 1, "glib": 0, "nested": 1, "_shards": len(hs), "_nhist": len(hs)})
    # nested=2: the sink PUMPS THE EVENT LOOP of the logger thread (processEvents) while a backlog is queued: event delivery is re-entered
    for h in (["AMLLL", "AMLLLL"] if tier == "quick" else ["AMLLL", "AMLLLL", "AMLLLR", "AMLLL 3 2"]):
        parts = h.split()
        sc = {"scenario": "c04xh", "hist": parts[0], "bound": b, "glib": 1, "nested": 2}
        if len(parts) == 3:
            sc["racer-at"], sc["racer"] = int(parts[1]), int(parts[2])
        out.append(sc)
    # a burst far beyond any plausible back-pressure threshold while the worker is held in the sink: no logging call may wait
    out.append({"scenario": "c03burst", "p": 1, "m": 12000 if tier == "quick" else 70000, "bound": 0, "glib": 1, "_shards": 1})
    return out


def run(tier):
    if tier == "quick":
        scs = [dict(scenario="c03h", p=2, m=2, bound=2, glib=1), dict(scenario="c03h", p=2, m=1, bound=2, glib=0), dict(scenario="c03h", p=3, m=1, bound=1, glib=1, _shards=16),
               dict(scenario="c03g", p=2, m=2, bound=1, glib=1, _shards=16), dict(scenario="c03g", p=1, m=4, bound=2, glib=0), dict(scenario="c03h", p=1, m=4, bound=2, glib=1)]
        dl = 400
        scs += nested_and_stop(tier)
    else:
        scs = [dict(scenario="c03h", p=2, m=2, bound=3, glib=1), dict(scenario="c03h", p=2, m=2, bound=2, glib=0), dict(scenario="c03h", p=3, m=1, bound=2, glib=1), dict(scenario="c03h", p=2, m=3, bound=2, glib=1),
               dict(scenario="c03g", p=2, m=2, bound=2, glib=1), dict(scenario="c03g", p=2, m=3, bound=1, glib=0, _shards=16), dict(scenario="c03g", p=1, m=5, bound=3, glib=1), dict(scenario="c03h", p=1, m=5, bound=3, glib=0)]
        dl = 1500
        scs += nested_and_stop(tier)
    return vsrun.vs_check(
        PROP, tier, scs, deadline_s=dl, min_outcomes=2,
        race_scenarios=[dict(scenario="c03h", p=2, m=1, bound=1, glib=1), dict(scenario="c03g", p=2, m=1, bound=1, glib=1), dict(scenario="c03h", p=2, m=2, bound=0, glib=0)] if tier == "quick" else
                      [dict(scenario="c03h", p=2, m=2, bound=2, glib=1), dict(scenario="c03g", p=2, m=2, bound=2, glib=1), dict(scenario="c03h", p=2, m=2, bound=1, glib=0), dict(scenario="c03g", p=3, m=1, bound=1, glib=0)],
        rule="every interleaving, up to the deviation bound, of P producers x m messages and the worker thread of an OwnThreadHandler<Pipeline> moved to its own thread; messages are "
             "built with heap-allocated file/function/category strings (or null pointers), pre-set formatted text and attributes, and the caller poisons and frees those buffers right "
             "after process() returns; the sink (with yield points) compares EVERY accessor (type, text, file, line, function, category, time, steady time, thread id, formatted text, "
             "attributes) with the original; oracle per execution: exactly once, per-producer FIFO, a call that returned before another began is delivered first (logical clock), every "
             "delivery on the worker thread, while the worker is inside a sink no other thread waits (or starts waiting) for any lock the worker holds; both event-dispatcher variants. Each producer "
             "REUSES one caller-owned buffer for the file/function/category strings of all its messages (same address, new contents) and poisons it after every call. Scenario c03g: the same "
             "through a Logger moved to its own thread, entered through processMessage() with the caller's QMessageLogContext, all five message types including fatal; the message object is "
             "created inside the call, so time / steady time must lie inside the producer's call interval and the thread id must be the producer's. Scenarios c04x* with nested=1: operation histories in "
             "which the sink itself logs a message on the logger thread while a backlog is queued, and a second thread logs while a stop delivers queued messages: a call that returned before another "
             "began is delivered first, no sink is re-entered or entered by two threads; nested=2: the sink pumps the logger thread's event loop (processEvents) while a backlog is queued; "
             "c03burst: one producer logs 12 000 (70 000) messages while the worker is held inside the sink - no logging call may sleep or wait for the logger thread (oracle on every sleep and every "
             "contended lock); distinct_nontrivial = distinct delivery orders",
        assumptions=vsrun.VS_ASSUMPTIONS + ["null and empty C strings are identified (the copy constructor turns nullptr into \"\")"])


def replay(path):
    return vsrun.replay(PROP, path)
