"""C07: no file outgrows the size limit unless it is one oversize record (engine vfs, mode hist)."""
import vfsrun

PROP = "C07"


def run(tier):
    QUICK_CFGS = lambda: vfsrun.cfgs([5], [0], range(8)) + vfsrun.cfgs([5], [3], [0, 3, 6]) + vfsrun.cfgs([1, 2, 8], [0], [0, 3, 6]) + vfsrun.cfgs([8], [2], [7]) + vfsrun.cfgs([5], [0, 3], [0, 6], shapes=(5,))
    extra = []
    if tier == "quick":
        cfgs = QUICK_CFGS()
        depth = 4
    else:
        cfgs = vfsrun.cfgs([1, 2, 3, 4, 5, 6, 7, 8], [0, 2, 3], range(8))
        depth = 4
        extra = [(QUICK_CFGS(), 5)]      # depth 5 on the quick configuration set, depth 4 on the full set: sized to finish (see vfsrun.DEADLINE)
    deep = (vfsrun.cfgs([5], [0, 3], range(8)), 6) if tier == 'quick' else (cfgs, 7)
    lag = (vfsrun.cfgs([5], [0, 3], [2, 3, 6, 7]) + vfsrun.cfgs([8], [0], [2]), 5 if tier == "quick" else 6)
    return vfsrun.hist_check(
        PROP, tier, cfgs, depth, extra_groups=extra, lag=lag,
        rule="every operation history up to the depth bound over records of framed size {1,L-1,L,L+1,L+2}, multi-byte (2-byte UTF-8) records of 3 and 5 bytes, a record with an "
             "embedded LF, day changes and restarts, for each size limit L and option set; after every operation each file the sink wrote (rotated files decompressed) is "
             "located in the written stream and must be <= L bytes or hold exactly one record; a further family adds LAGGING records (message created on the previous day, sent now - an asynchronous "
             "backlog across midnight) under daily rotation: dates are then not monotonic and rotated names of an earlier date come up again; states = distinct (directory contents, day, records written)",
        deep=deep, assumptions=vfsrun.COMMON_ASSUMPTIONS + ["file-count limit 1 (rotation disabled) is outside the property"])


def replay(path):
    return vfsrun.replay(PROP, path)
