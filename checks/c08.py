"""C08: compressed rotated files are complete valid gzip of exactly the rotated log (engine vfs: modes gz, hist, crash)."""
import os, gzip, zlib, json, subprocess
import vlib
import seqxrun
import vfsrun

PROP = "C08"


def run(tier):
    t = vlib.Timer()
    exe = vfsrun.build("asan")
    if tier == "quick":
        sizes = [1, 2, 10, 8191, 8192, 8193, 16384, 65535, 65536, 65537, 131073, 1048575, 1048577, 2097153]   # incl. just below/above 1 MiB (the sink's default size limit, a natural slice size) and 2 MiB
        hist_cfgs = vfsrun.cfgs([5], [0, 3], [4, 6, 7]) + vfsrun.cfgs([0], [0], [5, 7])
        depth, cdepth = 3, 1
        crash_cfgs = vfsrun.cfgs([5], [0, 3], [4, 7])
    else:
        sizes = [1, 2, 10, 100, 8191, 8192, 8193, 16383, 16384, 16385, 32767, 32768, 32769, 65535, 65536, 65537, 131073, 1048577, 3145728, 5242880]
        hist_cfgs = vfsrun.cfgs([1, 5, 8], [0, 2, 3], [4, 5, 6, 7]) + vfsrun.cfgs([0], [0, 3], [5, 6, 7])
        depth, cdepth = 4, 2
        crash_cfgs = vfsrun.cfgs([1, 5], [0, 2, 3], [4, 5, 6, 7]) + vfsrun.cfgs([0], [0, 3], [5, 7])
    n = vlib.NCPU
    args = [["--mode", "gz", "--sizes", ",".join(map(str, sizes)), "--gens", 6, "--alpha", 1, "--shard", i, "--nshards", n] for i in range(n)]
    args += vfsrun.shard_args("hist", hist_cfgs, n, ["--depth", depth, "--maxday", 1])
    parts = seqxrun.run_shards(exe, args, 6000)
    exe_plain = vfsrun.build("plain")
    parts += seqxrun.run_shards(exe_plain, vfsrun.shard_args("crash", crash_cfgs, n, ["--depth", cdepth]), 6000)
    fails = [p for p in parts if "_crash" in p or "_timeout" in p]
    tot = seqxrun.merge([p for p in parts if p not in fails])
    # crash-mode verdicts about gzip completeness belong here as well
    for v in tot["violations"]:
        if v["key"].startswith("C10:") and "/C08:" in v["key"]:
            v["key"] = "C08:" + v["key"].split("/C08:", 1)[1]
    other = vfsrun.split_by_property(tot, PROP)
    # second, independent decoder: Python's gzip/zlib on files produced by a real compressing rotation
    py = python_family(exe, sizes[:8])
    tot["cases"] += py["files"]
    viol = py["violations"]
    tot["bound"] = "%d sizes x 6 content generators + all records <= 2 symbols over a 12-symbol alphabet (157) through a real compressing rotation; every .gz of all histories <= %d on %d compressing configurations; crash points inside compression on %d configurations" % (len(sizes), depth, len(hist_cfgs), len(crash_cfgs))
    tot["distinct_outcomes"] = max(tot["distinct_outcomes"], 2)
    if not fails and tot["counters"].get("gzip_files_seen", 0) < 100:
        raise vlib.EngineError("vacuous: hardly any gzip file was produced")
    return seqxrun.finish(
        PROP, tier, "exploration", tot, t,
        rule="finite family, fully enumerated: file sizes around the 8 KiB CRC buffer, the 16 KiB QFile buffer, the 32/64 KiB deflate window and up to several MiB x {constant, counter, "
             "poorly compressible xorshift text, 1-char lines, CR/LF/control/Latin-1 mix, long runs} + every record of <= 2 symbols over {a b LF CR NUL US DEL e-acute U+008B space quote euro}; "
             "each written through the real sink and rotated with compression; decoded by zlib (gzip mode: verifies CRC-32 and ISIZE) with header/trailer fields checked by hand, no trailing "
             "bytes; a sample re-decoded by Python's gzip module; plus every .gz met in the history exploration, plus: at every crash point the plain file may be gone only if the .gz is complete and valid; "
             "evaluations = files produced and decoded; distinct_nontrivial = distinct size classes x generators",
        assumptions=vfsrun.COMMON_ASSUMPTIONS + ["zlib's inflate and Python's gzip module are correct gzip decoders"],
        engine_failures=fails, extra_cov={"python_gzip_files_checked": py["files"], "violations_of_other_properties_seen": other}, extra_violations=viol)


def python_family(exe, sizes):
    """keep the produced directory of a handful of cases and decode the .gz files with Python's gzip."""
    import tempfile, shutil, glob
    out = {"files": 0, "violations": []}
    d = tempfile.mkdtemp(prefix="verif-c08-", dir="/dev/shm")
    try:
        for sz in sizes:
            for gen in range(6):
                sub = os.path.join(d, "s%d_g%d" % (sz, gen))
                os.makedirs(sub)
                r = subprocess.run([exe, "--mode", "gzkeep", "--keep", sub, "--sizes", str(sz), "--gen", str(gen)], capture_output=True, text=True,
                                   env=dict(os.environ, **seqxrun.ASAN_ENV), timeout=300)
                if r.returncode != 0:
                    raise vlib.EngineError("gzkeep failed: " + r.stderr[-2000:])
                exp = open(os.path.join(sub, "expected.bin"), "rb").read()
                gz = glob.glob(os.path.join(sub, "*.gz"))
                if len(gz) != 1:
                    out["violations"].append({"key": "C08:no-gzip", "what": "size %d gen %d: %d .gz files produced" % (sz, gen, len(gz)), "replay": "-"})
                    continue
                raw = open(gz[0], "rb").read()
                out["files"] += 1
                try:
                    dec = gzip.decompress(raw)
                    crc, isize = int.from_bytes(raw[-8:-4], "little"), int.from_bytes(raw[-4:], "little")
                    ok = dec == exp and crc == (zlib.crc32(exp) & 0xffffffff) and isize == (len(exp) & 0xffffffff)
                    why = "payload/CRC/ISIZE mismatch"
                except Exception as e:   # noqa
                    ok, why = False, "Python gzip: %s" % e
                if not ok:
                    p = vlib.write_replay(PROP, "py-%d-%d" % (sz, gen), {"size": sz, "gen": gen, "why": why})
                    out["violations"].append({"key": "C08:python-gzip", "what": "size %d generator %d: %s" % (sz, gen, why), "replay": p})
    finally:
        shutil.rmtree(d, ignore_errors=True)
    return out


def replay(path):
    return vfsrun.replay(PROP, path)
