"""Runner for engine vfs (history / crash / fault explorer over the real RotatingFileSink with interposed libc)."""
import os
import vlib
import seqxrun


def build(flavour="asan"):
    lib = vlib.build_lib(flavour)
    src = [os.path.join(vlib.VERIF, "engine", "vfs", "vfs.cpp")]
    return vlib.build_exe("vfs", src, flavour, lib, extra_flags=["-I" + os.path.join(vlib.VERIF, "engine", "vfs")],
                          link_flags=["-rdynamic", "-lz", "-ldl"])


def cfgs(Ls, Ns, opts, shapes=(0,), ticks=(0,)):
    return ["%d,%d,%d,%d,%d" % (L, N, o, s, t) for L in Ls for N in Ns for o in opts for s in shapes for t in ticks]


def shard_args(mode, configs, nshards, extra):
    """Split by configuration when there are many, by case number otherwise."""
    out = []
    if len(configs) >= nshards:
        for i in range(nshards):
            part = configs[i::nshards]
            if part:
                out.append(["--mode", mode, "--configs", ";".join(part)] + extra)
    else:
        for i in range(nshards):
            out.append(["--mode", mode, "--configs", ";".join(configs), "--shard", i, "--nshards", nshards] + extra)
    return out


def run(exe, arglists, timeout=3000):
    parts = seqxrun.run_shards(exe, arglists, timeout)
    fails = [p for p in parts if "_crash" in p or "_timeout" in p]
    tot = seqxrun.merge([p for p in parts if p not in fails])
    return tot, fails


def split_by_property(tot, prop):
    """keep this property's violations; count the others (they are reported by their own checks)"""
    mine = [v for v in tot["violations"] if v["key"].startswith(prop + ":")]
    other = len(tot["violations"]) - len(mine)
    tot["violations"] = mine
    tot["violation_count"] = len(mine)
    return other


DEADLINE = {"quick": 240, "thorough": 1500}


def hist_check(prop, tier, configs, depth, rule, assumptions, level="model_checking", long_cfgs=None, long_writes=(), maxday=2, deep=None, extra_groups=(), lag=None, reconf=None, crash=None):
    """shared driver of C05 C06 C07 C09: exhaustive history enumeration (+ optional straight-line crossings).
    extra_groups: further (configs, depth) pairs. Every enumeration runs under a real-time deadline; a run that is cut reports
    exhaustive:false and the depth it completed on every configuration (iterative deepening), and still exits 0."""
    t = vlib.Timer()
    exe = build()
    # every run records this property's violations only (the engine evaluates all rotation oracles; the others are counted):
    # otherwise a change that breaks several properties could fill the engine's violation list with the other properties' entries
    dl = ["--deadline-s", DEADLINE[tier], "--only-prop", prop]
    groups = [(configs, depth)] + list(extra_groups)
    args, kinds = [], []
    for gi, (cf, dp) in enumerate(groups):
        a = shard_args("hist", cf, vlib.NCPU, ["--depth", dp, "--maxday", maxday] + dl)
        args += a; kinds += [("g%d" % gi, dp)] * len(a)
    if deep:
        a = shard_args("hist", deep[0], vlib.NCPU, ["--depth", deep[1], "--maxday", 1, "--reduced", 1] + dl)
        args += a; kinds += [("deep", deep[1])] * len(a)
    if lag:
        # histories that also contain LAGGING records (message created yesterday, sent now: an asynchronous backlog across midnight)
        a = shard_args("hist", lag[0], vlib.NCPU, ["--depth", lag[1], "--maxday", 1, "--reduced", 1, "--lag", 1] + dl)
        args += a; kinds += [("lag", lag[1])] * len(a)
    if reconf:
        # histories in which a restart may also SWITCH an option (compression, rotation on startup): an edited configuration between
        # two runs of the application; the directory then mixes compressed and plain rotated files
        a = shard_args("hist", reconf[0], vlib.NCPU, ["--depth", reconf[1], "--maxday", 1, "--reduced", 1, "--reconf", 1] + dl)
        args += a; kinds += [("reconf", reconf[1])] * len(a)
    for w in long_writes:
        for c in (long_cfgs or []):
            args.append(["--mode", "long", "--configs", c, "--writes", w, "--only-prop", prop]); kinds.append(("long", w))
    parts = seqxrun.run_shards(exe, args, DEADLINE[tier] + 900)
    fails = [p for p in parts if "_crash" in p or "_timeout" in p]
    good = [p for p in parts if p not in fails]
    tot = seqxrun.merge(good)
    done = {}
    for p, (k, dp) in zip(parts, kinds):
        if p in fails or k == "long":
            continue
        c = p.get("counters", {}).get("completed_depth_min", dp)
        done[k] = min(done.get(k, dp), c)
    tot["counters"].pop("completed_depth_min", None)
    tot["bound"] = "; ".join("histories <= %d ops%s on %d configurations%s" % (dp, "" if gi == 0 else "", len(cf), "" if done.get("g%d" % gi, dp) == dp else " (deadline: completed <= %d on all of them)" % done.get("g%d" % gi)) for gi, (cf, dp) in enumerate(groups)) + \
                   " over {W x up to 8 record kinds, D1..D%d, R}" % maxday + \
                   ("; %s consecutive rotating writes x 3 variants on %d configurations" % ("/".join(map(str, long_writes)), len(long_cfgs or [])) if long_writes else "") + \
                   ("; histories <= %d ops over the reduced alphabet {W1, W(L), D1, R} on %d configurations%s" % (deep[1], len(deep[0]), "" if done.get("deep", deep[1]) == deep[1] else " (deadline: completed <= %d)" % done.get("deep")) if deep else "") + \
                   ("; histories <= %d ops over {W1, W(L), lagging W1, lagging W(L), D1, R} on %d configurations" % (lag[1], len(lag[0])) if lag else "") + \
                   ("; histories <= %d ops over {W1, W(L), D1, R, Qc = restart with compression switched, Qs = restart with rotation-on-startup switched} on %d configurations%s" % (reconf[1], len(reconf[0]), "" if done.get("reconf", reconf[1]) == reconf[1] else " (deadline: completed <= %d)" % done.get("reconf")) if reconf else "")
    if crash:
        # crash points of a rotating write + restart (mode crash, as in C10): this property's verdicts about the restarted sink
        # (C06: the directory is within the file-count limit again once the restarted sink has rotated twice) are reported here
        ctot, cfails = run(build("plain"), shard_args("crash", crash[0], vlib.NCPU, ["--depth", crash[1]]), 3000)
        fails += cfails
        for v in ctot["violations"]:
            if v["key"].startswith("C10:") and ("/" + prop + ":") in v["key"]:
                v["key"] = prop + ":" + v["key"].split("/" + prop + ":", 1)[1]
                tot["violations"].append(v)
        tot["cases"] += ctot["cases"]; tot["transitions"] += ctot["transitions"]
        for k in ("crash_points", "faults_injected", "restarts"):
            if k in ctot["counters"]: tot["counters"][k] = ctot["counters"][k]
        tot["bound"] += "; every crash point of a final rotating write after prefix histories <= %d ops on %d compressing configurations, then restart + 3 rotating writes" % (crash[1], len(crash[0]))
    other = split_by_property(tot, prop) + tot["counters"].get("violations_of_other_properties_not_recorded", 0)
    tot["distinct_outcomes"] = tot["states"]
    return seqxrun.finish(prop, tier, level, tot, t, rule, assumptions, fails,
                          extra_cov={"configurations": sum(len(cf) for cf, _ in groups), "violations_of_other_properties_seen": other, "completed_depth": done})


def replay(prop, path):
    import json
    exe = build()
    case = json.load(open(path))["case"]
    if case.get("mode") == "hist":
        res = seqxrun.run_one(exe, ["--mode", "replay", "--configs", case["config"], "--history", case["history"]], 120)
    else:
        print(json.dumps(case, indent=1))
        print("replay: crash/fault cases are re-run by `python3 bin/check.py %s` (deterministic enumeration)" % prop)
        return 0
    print(json.dumps(res, indent=1))
    mine = [v for v in res.get("violations", []) if v["key"].startswith(prop + ":")]
    return 1 if mine else 0


COMMON_ASSUMPTIONS = [
    "TZ=UTC, LC_ALL=C.UTF-8; wall clock and file modification times are virtual (interposed gettimeofday/clock_gettime/statx), advanced only by the explorer",
    "messages are created and sent at the same virtual instant (synchronous logger)",
    "log file names explored: app.log, app (no suffix), a+b.log (regex metacharacter), .app.log (hidden); rotated files of all of them must be found again by the sink",
    "the scratch directory is a tmpfs; the interposer sees every open/write/rename/unlink Qt performs (vacuity guard: rotations are counted)",
]
