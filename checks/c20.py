"""C20: the single-header distribution is exactly the amalgamation of the sources.
(1) in-family: the bounded explorers of C01, C12, C14 (signatures, rules), C15, C16, C17 are built twice - against src/ (the library build)
    and against /repo/qtlogger.h alone (the header-only distribution) - and every (case => observed output) pair must agree (digests per
    shard; a mismatch is diffed down to the first differing case);
(2) exact, not model checking: the project's generator is run on a scratch copy of the tree and its output compared byte for byte."""
import filecmp
import json
import os
import shutil
import subprocess
import tempfile

import vlib
import seqxrun

PROP = "C20"
SEQX = os.path.join(vlib.VERIF, "engine", "seqx")


def spaces(tier):
    q = tier == "quick"
    n = 8
    return [
        ("c01", [["--nodes", 4 if q else 5, "--depth", 3, "--calls", 4 if q else 5, "--scoped-root", 0, "--shard", i, "--nshards", n] for i in range(n)]),
        ("c12", [["--tokens", 2 if q else 3, "--values", 0 if q else 1, "--shard", i, "--nshards", n] for i in range(n)]),
        ("c14", [["--domain", d, "--len", 3 if q else 4, "--shard", i, "--nshards", 4] for d in ("func", "rules") for i in range(4)]),
        ("c15", [["--depth", 1 if q else 2, "--small-depth", 3, "--shard", i, "--nshards", n] for i in range(n)]),
        ("c16", [["--depth", 3 if q else 4, "--nodedup-depth", 2, "--shard", 0, "--nshards", 1, "--regex-out", os.path.join(vlib.BUILD, "c20-regex.tsv"), "--regex-tokens", 2, "--regex-len", 2]]),
        ("c17", [["--depth", 5 if q else 6, "--nodedup-depth", 4 if q else 5, "--shard", i, "--nshards", 4] for i in range(4)]),
        ("c13", [["--mode", m, "--len", 1 if q else 2, "--shard", i, "--nshards", 4] for m in ("json", "sentry") for i in range(4)]),
    ]


def build_pair(name):
    lf = ["-rdynamic", "-ldl"] if name == "c13" else []     # c13 interposes the clock (engine/vfs/vdev.h)
    src = seqxrun.build(name, [name + ".cpp"], flavour="plain", link_flags=lf)
    hdr_file = os.path.join(vlib.REPO, "qtlogger.h")
    mocf = vlib.moc(hdr_file, os.path.join(vlib.BUILD, "plain-hdr", "moc_qtlogger.cpp"))
    # header-only: no library objects, the header supplies everything (QTLOGGER_SYSLOG as in the library build)
    save = list(vlib.BASE_FLAGS)
    try:
        hdr = vlib.build_exe(name + "h", [os.path.join(SEQX, name + ".cpp")], "plain", [],
                             extra_flags=["-I" + SEQX, '-DVERIF_QTLOGGER_H="%s"' % hdr_file, '-DVERIF_QTLOGGER_MOC="%s"' % mocf], link_flags=lf, variant="hdr")
    finally:
        vlib.BASE_FLAGS[:] = save
    return src, hdr


def build_cfg_pair(define):
    """the build-option explorer (engine/seqx/c20cfg.cpp) against src/ and against the single header, both with the same option"""
    tag = "opt-" + (define.lower().replace("qtlogger_", "").replace("_", "") if define else "default")
    ef = ["-D" + define] if define else []
    lib = vlib.build_lib("plain", variant=tag, extra_flags=ef) if define else vlib.build_lib("plain")     # default options: the library objects every plain build shares
    src = vlib.build_exe("c20cfg", [os.path.join(SEQX, "c20cfg.cpp")], "plain", lib, extra_flags=["-I" + SEQX] + ef, variant=tag if define else "")
    hdr_file = os.path.join(vlib.REPO, "qtlogger.h")
    mocf = os.path.join(vlib.BUILD, "plain-hdr-" + tag, "moc_qtlogger.cpp")
    os.makedirs(os.path.dirname(mocf), exist_ok=True)
    r = subprocess.run(["moc"] + [f for f in vlib.BASE_FLAGS if f.startswith(("-I", "-D"))] + ef + [hdr_file, "-o", mocf], capture_output=True, text=True)
    if r.returncode != 0:
        raise vlib.EngineError("plain-hdr moc failed: " + r.stderr[-2000:])
    hdr = vlib.build_exe("c20cfgh", [os.path.join(SEQX, "c20cfg.cpp")], "plain", [],
                         extra_flags=["-I" + SEQX, '-DVERIF_QTLOGGER_H="%s"' % hdr_file, '-DVERIF_QTLOGGER_MOC="%s"' % mocf] + ef, variant="hdr-" + tag)
    return src, hdr


def regenerate():
    """run the project's generator on a scratch copy (outside /repo and /verif); -> (identical, detail)"""
    d = tempfile.mkdtemp(prefix="verif-c20-", dir="/dev/shm")
    try:
        shutil.copytree(os.path.join(vlib.REPO, "src"), os.path.join(d, "src"), ignore=shutil.ignore_patterns("build", "_build"))
        shutil.copytree(os.path.join(vlib.REPO, "tools"), os.path.join(d, "tools"))
        r = subprocess.run(["python3", os.path.join(d, "tools", "gen_qtlogger.h.py")], capture_output=True, text=True, timeout=300, cwd=d)
        gen = os.path.join(d, "qtlogger.h")
        if r.returncode != 0 or not os.path.exists(gen):
            return None, "the generator failed: " + r.stderr[-400:]
        a, b = open(gen, "rb").read(), open(os.path.join(vlib.REPO, "qtlogger.h"), "rb").read()
        if a == b:
            return True, "%d bytes" % len(a)
        al, bl = a.split(b"\n"), b.split(b"\n")
        for i, (x, y) in enumerate(zip(al, bl)):
            if x != y:
                return False, "first difference at line %d: generator %r, committed header %r" % (i + 1, x[:120].decode("utf-8", "replace"), y[:120].decode("utf-8", "replace"))
        return False, "the generator writes %d lines, the committed header has %d" % (len(al), len(bl))
    finally:
        shutil.rmtree(d, ignore_errors=True)


def first_difference(name, src, hdr, args):
    out = []
    for tag, exe in (("src", src), ("hdr", hdr)):
        f = os.path.join(vlib.BUILD, "c20-dump-%s-%s.txt" % (name, tag))
        env = dict(os.environ)
        env.update(seqxrun.ASAN_ENV)
        env["VERIF_DUMP"] = f
        subprocess.run([exe] + [str(a) for a in args], capture_output=True, env=env, timeout=3000)
        out.append(f)
    a, b = open(out[0], errors="replace").read().split("\n"), open(out[1], errors="replace").read().split("\n")
    msg = "outputs differ in length (%d vs %d cases)" % (len(a), len(b))
    for x, y in zip(a, b):
        if x != y:
            k = next((i for i, (p, q) in enumerate(zip(x, y)) if p != q), min(len(x), len(y)))
            lo = max(0, k - 60)
            msg = "case %s ... at offset %d library build has ...%s... header-only build has ...%s..." % (x[:100], k, x[lo:k + 80], y[lo:k + 80])
            break
    for f in out:
        os.unlink(f)
    return msg


def run(tier):
    t = vlib.Timer()
    viols = []
    ident, detail = regenerate()
    if ident is None:
        raise vlib.EngineError(detail)
    if not ident:
        viols.append({"key": "regeneration-differs", "what": "the committed qtlogger.h is not what tools/gen_qtlogger.h.py produces from src/: " + detail,
                      "replay": vlib.write_replay(PROP, tier + "-regeneration", {"detail": detail})})
    table, cases, pairs, distinct = [], 0, 0, 0
    fails = []
    import concurrent.futures
    sp = spaces(tier)
    seqxrun.build("c01", ["c01.cpp"], flavour="plain")      # the library objects once, before the parallel builds share them

    def safe_build(name):
        try:
            return build_pair(name)
        except vlib.EngineError as e:
            return e
    with concurrent.futures.ThreadPoolExecutor(max_workers=6) as ex:
        built = dict(zip([n for n, _ in sp], ex.map(safe_build, [n for n, _ in sp])))
    for name, arglists in sp:
        try:
            if isinstance(built[name], Exception):
                raise built[name]
            src, hdr = built[name]
        except vlib.EngineError as e:
            if "VERIF_QTLOGGER_H" in str(e) or "exe/%sh" % name in str(e) or "plain-hdr" in str(e):
                viols.append({"key": "header:does-not-build", "what": "the explorer %s does not build against the single header alone: %s" % (name, str(e)[-600:]),
                              "replay": vlib.write_replay(PROP, "%s-build-%s" % (tier, name), {"error": str(e)[-3000:]})})
                table.append({"explorer": name, "header_build": "failed"})
                continue
            raise
        a = seqxrun.run_shards(src, arglists, timeout=3000)
        b = seqxrun.run_shards(hdr, arglists, timeout=3000)
        bad = [p for p in a + b if "_crash" in p or "_timeout" in p]
        if bad:
            fails += bad
            continue
        nd = 0
        for args, x, y in zip(arglists, a, b):
            pairs += 1
            cases += x.get("cases", 0)
            distinct += x.get("distinct_outcomes", 0)
            if x.get("digest") != y.get("digest") or x.get("cases") != y.get("cases") or x.get("violation_count") != y.get("violation_count"):
                nd += 1
                if nd <= 1:
                    msg = first_difference(name, src, hdr, args)
                    viols.append({"key": "behaviour-differs:" + name, "what": "the library built from src/ and the single header behave differently in the space of explorer %s %s: %s" % (name, " ".join(map(str, args)), msg),
                                  "replay": vlib.write_replay(PROP, "%s-behaviour-%s" % (tier, name), {"explorer": name, "args": [str(z) for z in args], "difference": msg})})
        table.append({"explorer": name, "shards": len(arglists), "cases": sum(x.get("cases", 0) for x in a), "digests_equal": nd == 0})
    # build options: the same comparison with the library's feature switch QTLOGGER_NO_THREAD off and on (an #include that the
    # generator inlined inside a conditional block exists in the single header only under that condition)
    for define in ("", "QTLOGGER_NO_THREAD"):
        name = "c20cfg" + ("[-D%s]" % define if define else "")
        try:
            src, hdr = build_cfg_pair(define)
        except vlib.EngineError as e:
            if "hdr" in str(e):
                viols.append({"key": "header:does-not-build", "what": "the explorer %s does not build against the single header alone: %s" % (name, str(e)[-600:]),
                              "replay": vlib.write_replay(PROP, "%s-build-%s" % (tier, "cfg" + define), {"error": str(e)[-3000:]})})
                table.append({"explorer": name, "header_build": "failed"})
                continue
            raise
        args = ["--len", 2 if tier == "quick" else 3]
        x, y = seqxrun.run_one(src, args, 600), seqxrun.run_one(hdr, args, 600)
        bad = [p for p in (x, y) if "_crash" in p or "_timeout" in p]
        if bad:
            fails += bad
            continue
        pairs += 1
        cases += x.get("cases", 0)
        distinct += x.get("distinct_outcomes", 0)
        eq = x.get("digest") == y.get("digest") and x.get("cases") == y.get("cases")
        if not eq:
            msg = first_difference("c20cfg", src, hdr, args)
            viols.append({"key": "behaviour-differs:" + name, "what": "the library built from src/ and the single header, both compiled with %s, behave differently: %s" % ("-D" + define if define else "default options", msg),
                          "replay": vlib.write_replay(PROP, "%s-behaviour-cfg-%s" % (tier, define or "default"), {"explorer": name, "difference": msg})})
        table.append({"explorer": name, "shards": 1, "cases": x.get("cases", 0), "digests_equal": eq, "delivered": x.get("counters", {}).get("delivered"), "nothing_delivered": x.get("counters", {}).get("nothing_delivered")})
    tot = seqxrun.merge([])
    tot["cases"] = cases
    tot["states"] = cases
    tot["transitions"] = cases
    tot["replays_ok"] = pairs
    tot["distinct_outcomes"] = distinct
    tot["bound"] = "explorer spaces of C01 C12 C13/C18 C14 C15 C16 C17 (%s bounds) on both distributions; regeneration compared byte for byte" % tier
    tot["samples"] = [{"explorer": r["explorer"], "cases": r.get("cases"), "digests_equal": r.get("digests_equal")} for r in table]
    return seqxrun.finish(
        PROP, tier, "exploration", tot, t,
        rule="the bounded spaces of the explorers for C01 (pipeline trees, fluent sequences), C12 (patterns x values), C13/C18 (JSON and Sentry events incl. formatter objects constructed with "
             "non-default arguments), C14 (signatures, rule strings), C15 (rule lists), C16 (filter/counter message sequences, regex verdicts) and C17 (sorted-pipeline call sequences) are executed by two builds of each explorer: against the library sources under src/ and against the single "
             "header /repo/qtlogger.h alone (its own moc output, no library objects); every (case => observed output) pair is folded into a per-shard digest and the digests, case counts and "
             "oracle verdicts must be equal; a mismatch is diffed down to the first differing case; a further explorer (SignalSink deliveries over direct and queued connections before and after a handler object exists, message copies) is "
             "compared on both distributions twice: with default options and with -DQTLOGGER_NO_THREAD on both sides. evaluations = cases executed per build. Separately (exact, not model checking): the project's "
             "generator is run on a scratch copy of src/ + tools/ and its output is compared byte for byte with the committed header (coverage.regeneration_identical)",
        assumptions=["behavioural comparison only reaches code the explorer spaces execute; drift in comments or in unreached code is caught only by the byte comparison, which is exact but not model checking",
                     "outputs that depend on the clock or the thread id are excluded from the digests",
                     "the single header defines a few non-inline functions, so a program can include it from one translation unit only; the header-only build follows that restriction"],
        engine_failures=fails, extra_violations=viols,
        extra_cov={"regeneration_identical": bool(ident), "regeneration_detail": detail, "behaviour_digest_equal": not any(v["key"].startswith("behaviour") or v["key"].startswith("header") for v in viols), "explorers": table})


def replay(path):
    print(open(path).read())
    return 0
