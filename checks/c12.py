"""C12: pattern formatting follows the documented mini-language; values verbatim (engine seqx/c12.cpp)."""
import json
import vlib
import seqxrun

PROP = "C12"
NSH = 16


def run(tier):
    t = vlib.Timer()
    exe = seqxrun.build("c12", ["c12.cpp"])
    if tier == "quick":
        args = [["--tokens", 3, "--values", 1, "--cond-tokens", 5, "--spec-family", 1, "--reuse-family", 1, "--shard", i, "--nshards", NSH] for i in range(NSH)]
    else:
        args = [["--tokens", 3, "--values", 0, "--spec-family", 1, "--reuse-family", 1, "--shard", i, "--nshards", NSH] for i in range(NSH)] + \
               [["--tokens", 4, "--values", 1, "--cond-tokens", 7, "--shard", i, "--nshards", 4 * NSH] for i in range(4 * NSH)]
    parts = seqxrun.run_shards(exe, args, timeout=7000)
    fails = [p for p in parts if "_crash" in p or "_timeout" in p]
    tot = seqxrun.merge([p for p in parts if p not in fails])
    tot["distinct_outcomes"] = max(tot["distinct_outcomes"], 2)
    tot["bound"] = ("patterns <= 3 tokens over 59 tokens + 4 tails (all 15 values x 5 types x up to 5 signatures for <= 2 tokens; 4 values x 2 types at 3 tokens)" if tier == "quick"
                    else "patterns <= 3 tokens x 15 values x 5 types; patterns of 4 tokens x 4 values x 2 types")
    return seqxrun.finish(
        PROP, tier, "exploration", tot, t,
        rule="every sequence of tokens up to the bound over an alphabet of literals (incl. %%, lone %, {, }, :), all documented placeholders, time formats, present / optional-missing attributes "
             "with ?N,M forms, format specs from the four documentation tables, the five type conditionals, and unterminated tails; each formatted for every value of an adversarial list "
             "(empty, pattern syntax, U+200B alone / trailing / surrounding, astral, combining, RTL) as message AND attribute value x all five types by the real PatternFormatter and by an "
             "independent reference working on UTF-16 code units from docs/api/formatters.md; plus longer patterns (5 / 7 tokens) over a reduced alphabet built around the conditionals "
             "(the same placeholder in blocks of different types, inside and outside a block); plus the format-spec grammar as a product: 11 fills (incl. the alignment characters < > ^ themselves, !, 0, blank) x 4 alignments x 7 widths x with/without ! on 4 placeholders; "
             "plus consecutive messages through one formatter whose function / file / category strings arrive in the same caller-owned buffers with new contents; one formatter object formats all values and types of a pattern in sequence; cases where the documentation is silent are excluded and counted per reason "
             "(coverage.counters); evaluations = (pattern, value, type, signature) cases, states = patterns",
        assumptions=["category/file/function are printable ASCII (what compilers and Qt produce)",
                     "accept-sets: ISO time with or without milliseconds; padding width of values with astral characters counted in code units or code points",
                     "left out (exercised by C14 only): invalid specs, unknown if- names, nested/unclosed conditionals, missing non-optional attributes, removeBefore/removeAfter reaching into non-literal neighbours, time formats beyond the documented specifiers"],
        engine_failures=fails)


def replay(path):
    exe = seqxrun.build("c12", ["c12.cpp"])
    case = json.load(open(path))["case"]
    res = seqxrun.run_one(exe, ["--pattern", case["pattern"]], timeout=120)
    print(json.dumps(res, indent=1)[:4000])
    return 1 if res.get("violation_count") else 0
