"""C17: BFS over call sequences of the sorted pipeline (engine seqx/c17.cpp)."""
import json
import vlib
import seqxrun

PROP = "C17"
DEPTH = {"quick": 6, "thorough": 9}


def run(tier):
    t = vlib.Timer()
    exe = seqxrun.build("c17", ["c17.cpp"])
    res = seqxrun.run_one(exe, ["--depth", DEPTH[tier]], timeout=1500)
    fails = [res] if ("_crash" in res or "_timeout" in res) else []
    tot = seqxrun.merge([] if fails else [res])
    return seqxrun.finish(
        PROP, tier, "model_checking", tot, t,
        rule="BFS over all sequences of the 11 typed insert/clear calls + 5 null-argument calls up to the depth bound on the real "
             "SortedPipeline; state = handlers() as (class, rank in class); every (state, call) transition executed; "
             "distinct_nontrivial = distinct class arrangements observed",
        assumptions=["handlers() is the complete state of a SortedPipeline w.r.t. these calls (plus the immutable scoped flag)",
                     "ASan+UBSan build; a sanitizer report aborts the explorer and is an engine error to be triaged"],
        engine_failures=fails)


def replay(path):
    exe = seqxrun.build("c17", ["c17.cpp"])
    case = json.load(open(path))["case"]
    names = ["appendAttrHandler", "appendFilter", "setFormatter", "appendSink", "appendPipeline", "clearAttrHandlers",
             "clearFilters", "clearFormatters", "clearSinks", "clearPipelines", "clear", "appendAttrHandler(null)",
             "appendFilter(null)", "setFormatter(null)", "appendSink(null)", "appendPipeline(null)"]
    ops = ",".join(str(names.index(n)) for n in case["history"])
    res = seqxrun.run_one(exe, ["--replay-ops", ops], timeout=60)
    print(json.dumps(res, indent=1))
    return 1 if res.get("violation_count") else 0
