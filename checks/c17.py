"""C17: BFS over call sequences of the sorted pipeline (engine seqx/c17.cpp)."""
import json
import vlib
import seqxrun

PROP = "C17"
DEPTH = {"quick": 6, "thorough": 9}
NODEDUP = {"quick": 6, "thorough": 7}
NODEDUP_DUP = {"quick": 5, "thorough": 6}
NSH = 16


def run(tier):
    t = vlib.Timer()
    exe = seqxrun.build("c17", ["c17.cpp"])
    args = [["--depth", DEPTH[tier] if i == 0 else 0, "--nodedup-depth", NODEDUP[tier], "--nodedup-dup-depth", NODEDUP_DUP[tier], "--long", 1 if i == 1 else 0, "--shard", i, "--nshards", NSH] for i in range(NSH)]
    parts = seqxrun.run_shards(exe, args, timeout=3000)
    fails = [p for p in parts if "_crash" in p or "_timeout" in p]
    tot = seqxrun.merge([p for p in parts if p not in fails])
    tot["bound"] = ("BFS with state merging: call sequences <= %d over 20 calls; without merging: every sequence <= %d over the 12 non-null calls and every sequence <= %d over 15 calls (the 12 + re-registering the first "
                    "attribute handler / filter / sink object); pipelines of 17-40 handlers built in 3 orders, checked after every insertion" % (DEPTH[tier], NODEDUP[tier], NODEDUP_DUP[tier]))
    return seqxrun.finish(
        PROP, tier, "model_checking", tot, t,
        rule="BFS over all sequences of the 11 typed insert/clear calls + 5 null-argument calls + setFormatter() with the formatter object that is already installed + typed appends of a handler object that is already registered (one object, several entries) up to the depth bound on the real "
             "SortedPipeline; state = handlers() as (class, rank in class); every (state, call) transition executed; "
             "distinct_nontrivial = distinct class arrangements observed; in addition every call sequence up to a smaller depth is "
             "executed on its own without state merging (guards against hidden state that handlers() does not show)",
        assumptions=["handlers() is the complete state of a SortedPipeline w.r.t. these calls (plus the immutable scoped flag)",
                     "ASan+UBSan build; a sanitizer report aborts the explorer and is an engine error to be triaged"],
        engine_failures=fails)


def replay(path):
    exe = seqxrun.build("c17", ["c17.cpp"])
    case = json.load(open(path))["case"]
    names = ["appendAttrHandler", "appendFilter", "setFormatter", "appendSink", "appendPipeline", "clearAttrHandlers",
             "clearFilters", "clearFormatters", "clearSinks", "clearPipelines", "clear", "appendAttrHandler(null)",
             "appendFilter(null)", "setFormatter(null)", "appendSink(null)", "appendPipeline(null)", "setFormatter(the installed one again)",
             "appendAttrHandler(the first attribute handler object again)", "appendFilter(the first filter object again)", "appendSink(the first sink object again)"]
    ops = ",".join(str(names.index(n)) for n in case["history"])
    res = seqxrun.run_one(exe, ["--replay-ops", ops], timeout=60)
    print(json.dumps(res, indent=1))
    return 1 if res.get("violation_count") else 0
