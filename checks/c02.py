"""C02: concurrent synchronous logging is exactly-once, mutually exclusive, order-preserving (engine vsched)."""
import vsrun

PROP = "C02"


def run(tier):
    if tier == "quick":
        scs = [dict(scenario="c02l", p=2, m=2, bound=3), dict(scenario="c02l", p=3, m=2, bound=2), dict(scenario="c02l", p=2, m=3, bound=2),
               dict(scenario="c02b", p=2, m=2, bound=3), dict(scenario="c02b", p=3, m=2, bound=2), dict(scenario="c02b", p=4, m=1, bound=2)]
        dl = 150
    else:
        scs = [dict(scenario="c02l", p=2, m=2, bound=4), dict(scenario="c02l", p=3, m=2, bound=3), dict(scenario="c02l", p=4, m=1, bound=3),
               dict(scenario="c02b", p=2, m=2, bound=4), dict(scenario="c02b", p=3, m=2, bound=3), dict(scenario="c02b", p=4, m=2, bound=2), dict(scenario="c02b", p=5, m=1, bound=2)]
        dl = 1500
    return vsrun.vs_check(
        PROP, tier, scs, deadline_s=dl, min_outcomes=2,
        race_scenarios=[dict(scenario="c02b", p=2, m=2, bound=1), dict(scenario="c02l", p=2, m=2, bound=1), dict(scenario="c02b", p=3, m=1, bound=1)] if tier == "quick" else
                      [dict(scenario="c02b", p=2, m=2, bound=2), dict(scenario="c02l", p=2, m=2, bound=2), dict(scenario="c02b", p=3, m=2, bound=1), dict(scenario="c02l", p=3, m=1, bound=1)],
        rule="every interleaving, up to the deviation bound, of P producer threads logging m messages each (scenario c02l: through qDebug() and an installed synchronous Logger; c02b: "
             "calling process() of a bare OwnThreadHandler<Pipeline> that was never moved to a thread) through [probe-in, SeqNumberAttr, DuplicateFilter, PrettyFormatter, sink A, "
             "sub-pipeline{filter even producers, sink B}, probe-out]; probes and sinks contain yield points (handlers of arbitrary duration); oracle on EVERY execution: in-flight count "
             "between the probes never exceeds 1, every message reaches every qualifying sink exactly once, per-producer order, seq_number 0,1,2.. in delivery order, no deadlock; "
             "distinct_nontrivial = distinct delivery orders observed",
        assumptions=vsrun.VS_ASSUMPTIONS + ["lost updates inside the stateful handlers are excluded through the mutual-exclusion invariant (their fields are touched only between the probes)"])


def replay(path):
    return vsrun.replay(PROP, path)
