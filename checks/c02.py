"""C02: concurrent synchronous logging is exactly-once, mutually exclusive, order-preserving (engine vsched)."""
import os
import vlib
import vsrun

PROP = "C02"


def after_async(tier):
    """synchronous mode REACHED FROM an asynchronous phase: messages accepted while no application object exists stay queued until the
    stop delivers them in the stopping thread; other threads log meanwhile and afterwards. Histories as in C04 (checks/c04.py)."""
    hs = ["MLLR 3 1", "MLLR 3 2", "MLR 2 2", "MLLLR 4 1", "MLLRL 3 2", "AMLaLLR 6 1", "AMLaLLR 5 2", "MLLAR 4 1"]
    if tier != "quick":
        hs += ["MLLLR 3 2", "AMLLaLR 6 2", "MLARL 3 2", "AMLXL 3 2", "AMLaLR 5 2", "MLLR 2 2", "AMLaLLLR 7 2"]
    p = os.path.join(vlib.BUILD, "c02-hist.txt")
    os.makedirs(vlib.BUILD, exist_ok=True)
    open(p, "w").write("\n".join(hs) + "\n")
    b = 2 if tier == "quick" else 3
    out = []
    for h in hs:          # one exploration per history, each sharded over all cores
        parts = h.split()
        out.append({"scenario": "c04xh", "hist": parts[0], "racer-at": int(parts[1]), "racer": int(parts[2]), "bound": b, "glib": 1})
    out.append({"scenario": "c04xl", "hists-file": p, "bound": b - 1, "glib": 0, "_shards": len(hs), "_nhist": len(hs)})
    return out


def run(tier):
    if tier == "quick":
        scs = [dict(scenario="c02l", p=2, m=2, bound=3), dict(scenario="c02l", p=3, m=2, bound=2), dict(scenario="c02l", p=2, m=3, bound=2),
               dict(scenario="c02b", p=2, m=2, bound=3), dict(scenario="c02b", p=3, m=2, bound=2), dict(scenario="c02b", p=4, m=1, bound=2),
               dict(scenario="c02chain", p=2, m=2, bound=3), dict(scenario="c02chain", p=3, m=1, bound=2), dict(scenario="c02chain", p=4, m=1, bound=2)]
        dl = 300
        scs += after_async(tier)
    else:
        scs = [dict(scenario="c02l", p=2, m=2, bound=4), dict(scenario="c02l", p=3, m=2, bound=3), dict(scenario="c02l", p=4, m=1, bound=3),
               dict(scenario="c02b", p=2, m=2, bound=4), dict(scenario="c02b", p=3, m=2, bound=3), dict(scenario="c02b", p=4, m=2, bound=2), dict(scenario="c02b", p=5, m=1, bound=2),
               dict(scenario="c02chain", p=2, m=2, bound=4), dict(scenario="c02chain", p=3, m=2, bound=2), dict(scenario="c02chain", p=4, m=1, bound=3)]
        dl = 1500
        scs += after_async(tier)
    return vsrun.vs_check(
        PROP, tier, scs, deadline_s=dl, min_outcomes=2,
        race_scenarios=[dict(scenario="c02b", p=2, m=2, bound=1), dict(scenario="c02l", p=2, m=2, bound=1), dict(scenario="c02b", p=3, m=1, bound=1)] if tier == "quick" else
                      [dict(scenario="c02b", p=2, m=2, bound=2), dict(scenario="c02l", p=2, m=2, bound=2), dict(scenario="c02b", p=3, m=2, bound=1), dict(scenario="c02l", p=3, m=1, bound=1)],
        rule="every interleaving, up to the deviation bound, of P producer threads logging m messages each (scenario c02l: through qDebug() and an installed synchronous Logger; c02b: "
             "calling process() of a bare OwnThreadHandler<Pipeline> that was never moved to a thread) through [probe-in, SeqNumberAttr, DuplicateFilter, PrettyFormatter, sink A, "
             "sub-pipeline{filter even producers, sink B}, probe-out]; probes and sinks contain yield points (handlers of arbitrary duration); oracle on EVERY execution: in-flight count "
             "between the probes never exceeds 1, every message reaches every qualifying sink exactly once, per-producer order, seq_number 0,1,2.. in delivery order, no deadlock; "
             "c02chain: two own-thread-capable pipelines of the same class, the second a handler of the first and also fed directly by the odd producers (no two threads inside its sink); "
             "in c02l the last message of producer 0 is a fatal one (the logger flushes its sinks for it: send and flush of a sink must never overlap). Scenarios c04x*: synchronous mode reached from an "
             "asynchronous phase - operation histories (move, log without an application object so that messages stay queued, stop) with a second thread logging 1-2 messages from every position: no two "
             "threads inside a sink, exactly once, per-thread order, first-in-first-out in real time; distinct_nontrivial = distinct delivery orders observed",
        assumptions=vsrun.VS_ASSUMPTIONS + ["lost updates inside the stateful handlers are excluded through the mutual-exclusion invariant (their fields are touched only between the probes)"])


def replay(path):
    return vsrun.replay(PROP, path)
