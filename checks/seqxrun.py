"""Runner for seqx explorers: build (asan flavour, from /repo's working tree), run shards in
parallel, merge the JSON summaries, write replays + evidence, report."""
import concurrent.futures
import json
import os
import subprocess

import vlib

ASAN_ENV = {
    "ASAN_OPTIONS": "detect_leaks=0:abort_on_error=0:allocator_may_return_null=1",
    "UBSAN_OPTIONS": "print_stacktrace=1:halt_on_error=1",
    "LC_ALL": "C.UTF-8", "TZ": "UTC", "QT_LOGGING_RULES": "", "QT_MESSAGE_PATTERN": "",
}


def build(name, sources, flavour="asan", extra_flags=(), link_flags=()):
    lib = vlib.build_lib(flavour)
    srcs = [os.path.join(vlib.VERIF, "engine", "seqx", s) for s in sources]
    return vlib.build_exe(name, srcs, flavour, lib, extra_flags=["-I" + os.path.join(vlib.VERIF, "engine", "seqx")] + list(extra_flags),
                          link_flags=link_flags)


def run_one(exe, args, timeout):
    env = dict(os.environ)
    env.update(ASAN_ENV)
    try:
        r = subprocess.run([exe] + [str(a) for a in args], capture_output=True, text=True, env=env, timeout=timeout)
    except subprocess.TimeoutExpired:
        return {"_timeout": True, "_args": args}
    out = r.stdout.strip().splitlines()
    js = None
    for line in reversed(out):
        if line.startswith("{"):
            try:
                js = json.loads(line)
                break
            except ValueError:
                pass
    if r.returncode != 0 or js is None:
        return {"_crash": True, "_rc": r.returncode, "_args": args, "_stderr": r.stderr[-3000:], "_stdout": r.stdout[-500:]}
    return js


def merge(parts):
    tot = {"cases": 0, "states": 0, "transitions": 0, "replays_ok": 0, "violation_count": 0,
           "distinct_outcomes": 0, "exhaustive": True, "counters": {}, "violations": [], "samples": [], "bound": ""}
    for p in parts:
        for k in ("cases", "states", "transitions", "replays_ok", "violation_count", "distinct_outcomes"):
            tot[k] += p.get(k, 0)
        tot["exhaustive"] = tot["exhaustive"] and p.get("exhaustive", True)
        for k, v in p.get("counters", {}).items():
            tot["counters"][k] = tot["counters"].get(k, 0) + v
        tot["violations"] += p.get("violations", [])
        if len(tot["samples"]) < 8:
            tot["samples"] += p.get("samples", [])[:3]
        tot["bound"] = p.get("bound", tot["bound"])
    return tot


def run_shards(exe, arglists, timeout):
    with concurrent.futures.ThreadPoolExecutor(max_workers=vlib.NCPU) as ex:
        return list(ex.map(lambda a: run_one(exe, a, timeout), arglists))


def finish(prop, tier, level, tot, timer, rule, assumptions, engine_failures, extra_cov=None, extra_violations=None):
    """Common tail: engine failures -> EngineError; violations -> replays + report; evidence."""
    if engine_failures:
        # a crash of the explorer is either a sanitizer report attributable to the library (violation of
        # the property when the explorer says so itself) or an engine failure. Here: unattributed => engine error.
        raise vlib.EngineError("explorer shard failed: " + json.dumps(engine_failures[0])[:3000])
    viols = []
    import glob
    for old in glob.glob(os.path.join(vlib.OUT, "replays", prop, tier + "-*.json")):   # replays of earlier runs are stale
        os.unlink(old)
    for i, v in enumerate(tot["violations"]):
        path = vlib.write_replay(prop, "%s-%02d" % (tier, i), {"property": prop, "key": v["key"], "what": v["what"], "case": v["replay"]})
        viols.append({"key": v["key"], "what": v["what"], "replay": path})
    viols += (extra_violations or [])
    rc, nbad = vlib.report(prop, viols)
    cov = {
        "states": max(1, tot["states"]), "transitions": max(1, tot["transitions"]),
        "traces_validated_against_impl": tot["replays_ok"],
        "evaluations": tot["cases"], "distinct_nontrivial": tot["distinct_outcomes"],
        "rule": rule, "samples": tot["samples"][:8] or ["(none)"],
        "exhaustive": bool(tot["exhaustive"]), "bound_completed": tot["bound"],
        "distinct_outcomes": tot["distinct_outcomes"], "counters": tot["counters"],
        "violations_total_incl_known": tot["violation_count"],
    }
    if extra_cov:
        cov.update(extra_cov)
    vlib.write_evidence(prop, tier, level, cov, timer.s(), nbad, assumptions)
    print("%s %s: cases=%d states=%d transitions=%d outcomes=%d violations=%d (unlisted %d) exhaustive=%s wall=%.1fs" % (
        prop, tier, tot["cases"], tot["states"], tot["transitions"], tot["distinct_outcomes"], tot["violation_count"], nbad,
        tot["exhaustive"], timer.s()))
    return rc
