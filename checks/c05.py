"""C05: rotation never loses, duplicates, reorders or splits a record (engine vfs, mode hist)."""
import vfsrun

PROP = "C05"


def run(tier):
    QUICK_CFGS = lambda: vfsrun.cfgs([5], [0, 3], range(8)) + vfsrun.cfgs([5], [2], [0, 7]) + vfsrun.cfgs([0], [3], [3, 7]) + vfsrun.cfgs([1, 8], [3], [6]) + \
                   vfsrun.cfgs([5], [1], [7]) + vfsrun.cfgs([5], [3], [7], shapes=(1, 2)) + vfsrun.cfgs([5], [0], [0, 4], shapes=(3,)) + vfsrun.cfgs([5], [0], [4, 6], shapes=(4,)) + vfsrun.cfgs([5], [0, 3], [0, 4], shapes=(5,))
    extra = []
    if tier == "quick":
        cfgs = QUICK_CFGS()
        depth = 4
        deep = (vfsrun.cfgs([5], [0, 3], range(8)) + vfsrun.cfgs([0], [0], [1, 2, 3, 7]), 6)
        longs, writes = vfsrun.cfgs([1], [0], [4, 6]), (12,)
    else:
        cfgs = vfsrun.cfgs([0, 1, 5, 8], [0, 1, 2, 3], range(8)) + vfsrun.cfgs([5], [3], [0, 3, 7], shapes=(1, 2)) + vfsrun.cfgs([5], [0, 3], range(8), ticks=(1,))
        depth = 4
        extra = [(QUICK_CFGS(), 5)]      # depth 5 on the quick configuration set, depth 4 on the full set: sized to finish (see vfsrun.DEADLINE)
        deep = (vfsrun.cfgs([1, 5], [0, 2, 3], range(8)) + vfsrun.cfgs([0], [0, 3], [1, 2, 3, 5, 6, 7]), 7)
        longs, writes = vfsrun.cfgs([1], [0, 12], [0, 4, 6]), (12, 102)
    reconf = (vfsrun.cfgs([5], [0, 3], [0, 2, 4, 6]) + vfsrun.cfgs([1], [3], [4, 6]), 5) if tier == 'quick' else (vfsrun.cfgs([1, 5], [0, 2, 3], [0, 2, 4, 6]), 7)
    return vfsrun.hist_check(
        PROP, tier, cfgs, depth, extra_groups=extra,
        rule="every operation history up to the depth bound (normal form: no D;D, no R;R) over writes of framed size {1,L-1,L,L+1,L+2} (or {1,3,6} without a size limit), "
             "records with 2-byte UTF-8 characters and an embedded LF, day changes of 1-2 days and sink restarts, replayed on the real RotatingFileSink from an empty "
             "directory (plus look-alike foreign files; in one family a directory occupies the first rotated name, so that the rotation's rename fails by itself, in another the name of the first .gz, so that it cannot be created; in a third the log file is a hidden dot file .app.log); after EVERY operation the directory is read back (gzip decoded by zlib) and compared with the written byte stream: "
             "rotated files in order of appearance + active file must continue the stream exactly, files only disappear under retention, file boundaries are record boundaries, the (date, index) order of rotated names is the rotation order; additionally deeper histories over a reduced alphabet and 12 (102) consecutive compressing rotations; "
             "states = distinct (directory contents, day, records written); distinct_nontrivial = the same count",
        reconf=reconf, assumptions=vfsrun.COMMON_ASSUMPTIONS, deep=deep, long_cfgs=longs, long_writes=writes)


def replay(path):
    return vfsrun.replay(PROP, path)
