"""C04: stopping asynchronous logging drains every accepted message and terminates, on every shutdown path (engine vsched + real-Qt confirmation)."""
import os, subprocess, tempfile, time
import vlib
import vsrun

PROP = "C04"


def real_qt(tier):
    """the same shutdown paths on the REAL Qt (no model), slow sink: must exit in time with delivered == accepted"""
    lib = vlib.build_lib("plain")
    exe = vlib.build_exe("c04real", [os.path.join(vlib.VERIF, "engine", "procx", "c04real.cpp")], "plain", lib)
    viols, n = [], 0
    for path in (1, 2, 3, 4, 5):
        for b in ((0, 1, 3) if tier == "quick" else (0, 1, 2, 3, 8)):
            for disp in ("glib", "unix"):
                out = tempfile.mktemp(prefix="verif-c04-", dir="/dev/shm")
                env = dict(os.environ, LC_ALL="C.UTF-8")
                if disp == "unix":
                    env["QT_NO_GLIB"] = "1"
                t0 = time.time()
                try:
                    r = subprocess.run([exe, str(path), str(b), out], capture_output=True, timeout=20, env=env)
                    rc = r.returncode
                except subprocess.TimeoutExpired:
                    rc = "timeout"
                got = open(out).read().split() if os.path.exists(out) else []
                if os.path.exists(out):
                    os.unlink(out)
                n += 1
                want = ["m%d" % i for i in range(b)] + (["late"] if path in (1, 2, 5) else [])
                texts = [g.split("@")[0] for g in got]
                what = None
                if rc == "timeout":
                    what = "real Qt, path %d, backlog %d, %s dispatcher: the process did not exit within 20 s (delivered %r)" % (path, b, disp, got)
                    key = "real-qt:stop-hangs:path%d" % path
                elif rc != 0:
                    raise vlib.EngineError("c04real failed rc=%r %s" % (rc, r.stderr[-500:]))
                elif texts != want:
                    what = "real Qt, path %d, backlog %d, %s dispatcher: delivered %r, accepted %r" % (path, b, disp, got, want)
                    key = "real-qt:lost-or-duplicated:path%d" % path
                elif "late@other" in got:
                    what = "real Qt, path %d: the message logged after the stop was not handled on the caller's thread" % path
                    key = "real-qt:late-not-synchronous"
                if what:
                    viols.append({"key": key, "what": what, "replay": vlib.write_replay(PROP, "realqt-%d-%d-%s" % (path, b, disp), {"path": path, "backlog": b, "dispatcher": disp, "delivered": got})})
    return viols, n


def run(tier):
    scs = []
    if tier == "quick":
        for h in ("h", "l"):
            for path in (1, 2, 3, 4, 5):
                for b in (0, 2):
                    scs.append(dict(scenario="c04%s%d" % (h, path), backlog=b, bound=2, glib=1))
            scs.append(dict(scenario="c04%s4" % h, backlog=1, bound=2, glib=0))
            scs.append(dict(scenario="c04%s2" % h, backlog=2, bound=1, glib=0))
        scs += [dict(scenario="c04h1", backlog=2, racer=1, bound=2, glib=1), dict(scenario="c04h2", backlog=2, racer=1, bound=2, glib=1),
                dict(scenario="c04l2", backlog=1, racer=1, cycles=2, bound=2, glib=1), dict(scenario="c04h2", backlog=1, racer=2, bound=1, glib=1)]
        dl = 200
    else:
        for h in ("h", "l"):
            for path in (1, 2, 3, 4, 5):
                for b in (0, 1, 2, 3):
                    for g in (0, 1):
                        scs.append(dict(scenario="c04%s%d" % (h, path), backlog=b, bound=3 if b <= 2 else 2, glib=g))
        scs += [dict(scenario="c04h1", backlog=2, racer=2, bound=2, glib=1), dict(scenario="c04h2", backlog=2, racer=2, bound=2, glib=1),
                dict(scenario="c04h2", backlog=2, racer=1, bound=3, glib=1), dict(scenario="c04l1", backlog=2, racer=1, bound=2, glib=0),
                dict(scenario="c04l2", backlog=1, racer=1, cycles=2, bound=2, glib=1), dict(scenario="c04h2", backlog=2, racer=1, cycles=2, bound=2, glib=0)]
        dl = 2400
    rq_viols, rq_n = real_qt(tier)
    return vsrun.vs_check(
        PROP, tier, scs, deadline_s=dl,
        rule="every interleaving, up to the deviation bound, of the stopping thread, the worker thread and an optional racing producer, for each shutdown path (1 exec() returns -> aboutToQuit, "
             "2 explicit resetOwnThread, 3 destructor with a live application, 4 destructor after the application object is gone without exec(), 5 the same after exec()) x backlog sizes x "
             "both event-dispatcher variants x a bare OwnThreadHandler<Pipeline> and a Logger, optionally 2 move/reset cycles; timeouts of wait(3000) are explored as deviations; oracle per "
             "execution: the stop returns (no deadlock, no livelock in the drain loop), every message accepted before the stop began is delivered when the stop returns, delivered multiset = "
             "accepted multiset (no loss, no duplicate), messages logged after the stop are handled synchronously on the caller's thread, no event is posted to a destroyed worker and no sink "
             "runs after the handler was destroyed; in addition each path x backlog runs once on the real Qt (slow sink) and must exit in time with delivered == accepted",
        assumptions=vsrun.VS_ASSUMPTIONS + ["a racing producer is only explored on paths 1 and 2: calling into an object while its destructor runs is undefined behaviour of the caller"],
        extra_violations=rq_viols, extra_cov={"real_qt_runs": rq_n})


def replay(path):
    import json
    case = json.load(open(path)).get("case", {})
    if "choices" not in case:
        print(open(path).read())
        return 0
    return vsrun.replay(PROP, path)
