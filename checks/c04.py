"""C04: stopping asynchronous logging drains every accepted message and terminates, on every shutdown path (engine vsched + real-Qt confirmation)."""
import os, subprocess, tempfile, time
import vlib
import vsrun

PROP = "C04"


def own(lines):
    """the harness's own messages only: Qt itself may log through the installed handler too (e.g. 'QEventLoop: Cannot be used
    without QApplication' from a worker that starts its loop after the application object is gone) - those are not ours to count"""
    import re
    return [l for l in lines if re.match(r"^(m\d+|late)@(main|other)$", l)]


def real_qt(tier):
    """the same shutdown paths on the REAL Qt (no model), slow sink: must exit in time with delivered == accepted"""
    lib = vlib.build_lib("plain")
    exe = vlib.build_exe("c04real", [os.path.join(vlib.VERIF, "engine", "procx", "c04real.cpp")], "plain", lib)
    viols, n = [], 0
    for path in (1, 2, 3, 4, 5):
        for b in ((0, 1, 3) if tier == "quick" else (0, 1, 2, 3, 8)):
            for disp in ("glib", "unix"):
                out = tempfile.mktemp(prefix="verif-c04-", dir="/dev/shm")
                env = dict(os.environ, LC_ALL="C.UTF-8")
                if disp == "unix":
                    env["QT_NO_GLIB"] = "1"
                t0 = time.time()
                rc = "timeout"
                for limit in (20, 90):          # a timeout is re-run alone with a longer limit before it is called a hang
                    try:
                        if os.path.exists(out):
                            os.unlink(out)
                        r = subprocess.run([exe, str(path), str(b), out], capture_output=True, timeout=limit, env=env)
                        rc = r.returncode
                        break
                    except subprocess.TimeoutExpired:
                        rc = "timeout"
                got = own(open(out).read().split("\n")) if os.path.exists(out) else []
                if os.path.exists(out):
                    os.unlink(out)
                n += 1
                want = ["m%d" % i for i in range(b)] + (["late"] if path in (1, 2, 5) else [])
                texts = [g.split("@")[0] for g in got]
                what = None
                if rc == "timeout":
                    what = "real Qt, path %d, backlog %d, %s dispatcher: the process did not exit within 90 s (delivered %r)" % (path, b, disp, got)
                    key = "real-qt:stop-hangs:path%d" % path
                elif rc != 0:
                    raise vlib.EngineError("c04real failed rc=%r %s" % (rc, r.stderr[-500:]))
                elif texts != want:
                    what = "real Qt, path %d, backlog %d, %s dispatcher: delivered %r, accepted %r" % (path, b, disp, got, want)
                    key = "real-qt:lost-or-duplicated:path%d" % path
                elif "late@other" in got:
                    what = "real Qt, path %d: the message logged after the stop was not handled on the caller's thread" % path
                    key = "real-qt:late-not-synchronous"
                if what:
                    viols.append({"key": key, "what": what, "replay": vlib.write_replay(PROP, "realqt-%d-%d-%s" % (path, b, disp), {"path": path, "backlog": b, "dispatcher": disp, "delivered": got})})
    # lifecycle histories on the real Qt: the default schedule with the worker running ahead (a pause after every operation)
    import concurrent.futures
    hs = histories(4 if tier == "quick" else 5)

    def one(h):
        out = tempfile.mktemp(prefix="verif-c04h-", dir="/dev/shm")
        rc = "timeout"
        for limit in (30, 120):
            try:
                if os.path.exists(out):
                    os.unlink(out)
                r = subprocess.run([exe, "hist", h, out, "25"], capture_output=True, timeout=limit, env=dict(os.environ, LC_ALL="C.UTF-8"))
                rc = r.returncode
                break
            except subprocess.TimeoutExpired:
                rc = "timeout"
        got = own(open(out).read().split("\n")) if os.path.exists(out) else []
        if os.path.exists(out):
            os.unlink(out)
        return h, rc, got
    with concurrent.futures.ThreadPoolExecutor(max_workers=vlib.NCPU) as ex:
        for h, rc, got in ex.map(one, hs):
            n += 1
            want = ["m%d" % i for i in range(h.count("L"))]
            texts = [g.split("@")[0] for g in got]
            if rc == "timeout":
                viols.append({"key": "real-qt:stop-hangs:history", "what": "real Qt, history %s: the process did not finish within 120 s (delivered %r)" % (h, got),
                              "replay": vlib.write_replay(PROP, "realqt-hist-%s" % h, {"history": h, "delivered": got})})
            elif rc != 0:
                raise vlib.EngineError("c04real hist %s failed rc=%r" % (h, rc))
            elif texts != want:
                viols.append({"key": "real-qt:lost-or-duplicated:history", "what": "real Qt, history %s: delivered %r, accepted %r" % (h, got, want),
                              "replay": vlib.write_replay(PROP, "realqt-hist-%s" % h, {"history": h, "delivered": got})})
    return viols, n


def histories(maxlen, maxL=3, maxM=2, maxX=2, maxA=2):
    """every well-formed operation history up to maxlen (see engine/vsched/vsx.cpp, scenarioC04X) that moves and logs at least once"""
    out = []

    def rec(h, app, moved, nL, nM, nX, nA):
        if h:
            out.append(h)
        if len(h) == maxlen:
            return
        for op in "AaMLRXE":
            if op == "A" and (app or nA >= maxA): continue
            if op == "a" and not app: continue
            if op in "XE" and not app: continue
            if op == "E" and h.endswith("E"): continue
            if op == "L" and nL >= maxL: continue
            if op == "M" and nM >= maxM: continue
            if op == "X" and nX >= maxX: continue
            if op == "R" and (not moved or h.endswith("RR")): continue
            rec(h + op, (op == "A") if op in "Aa" else app, moved or op == "M", nL + (op == "L"), nM + (op == "M"), nX + (op == "X"), nA + (op == "A"))
    rec("", False, False, 0, 0, 0, 0)
    return [h for h in out if "M" in h and "L" in h]


def hist_file(name, lines):
    p = os.path.join(vlib.BUILD, name)
    os.makedirs(vlib.BUILD, exist_ok=True)
    with open(p, "w") as f:
        f.write("\n".join(lines) + "\n")
    return p


def lifecycle_scenarios(tier):
    scs = []
    if tier == "quick":
        h5, h4 = histories(5), histories(4)
        scs.append({"scenario": "c04xh", "hists-file": hist_file("c04-hist-5.txt", h5), "bound": 1, "glib": 1, "_shards": vlib.NCPU, "_nhist": len(h5)})
        scs.append({"scenario": "c04xl", "hists-file": hist_file("c04-hist-4.txt", h4), "bound": 1, "glib": 0, "_shards": vlib.NCPU, "_nhist": len(h4)})
        rc = ["%s %d 1" % (h, i) for h in h4 for i in range(len(h) + 1)]
        scs.append({"scenario": "c04xh", "hists-file": hist_file("c04-hist-4-racer.txt", rc), "bound": 1, "glib": 1, "_shards": vlib.NCPU, "_nhist": len(rc)})
        # a sink that logs itself while a stop delivers the backlog; a SECOND thread that stops the logger at the same time
        nest = ["AMLLR", "AMLLLR", "AMLLX", "AMLLaR", "MLLAR", "AMLL"]
        scs.append({"scenario": "c04xh", "hists-file": hist_file("c04-hist-nested.txt", nest), "bound": 1, "glib": 1, "nested": 1, "_shards": len(nest), "_nhist": len(nest)})
        two = ["%s %d 1" % (h, i) for h in ("AMLLR", "AMLLX", "AMLR", "MLLR", "AMLLaR", "AMLRMLR") for i in range(2, len(h))]
        scs.append({"scenario": "c04xh", "hists-file": hist_file("c04-hist-twostops.txt", two), "bound": 1, "glib": 1, "racer-reset": 1, "_shards": vlib.NCPU, "_nhist": len(two)})
        scs.append({"scenario": "c04xl", "hists-file": hist_file("c04-hist-twostops.txt", two), "bound": 0, "glib": 0, "racer-reset": 1, "_shards": 4, "_nhist": len(two)})
        h7 = histories(7)      # long histories under the default schedule only (the worker runs ahead after every operation)
        scs.append({"scenario": "c04xh", "hists-file": hist_file("c04-hist-7.txt", h7), "bound": 0, "glib": 1, "_shards": vlib.NCPU, "_nhist": len(h7)})
    else:
        nest = [h for h in histories(5) if h.count("L") >= 2]
        scs.append({"scenario": "c04xh", "hists-file": hist_file("c04-hist-nested5.txt", nest), "bound": 1, "glib": 1, "nested": 1, "_shards": 2 * vlib.NCPU, "_nhist": len(nest)})
        two = ["%s %d 1" % (h, i) for h in histories(5) if ("R" in h or "X" in h) for i in range(1, len(h) + 1)]
        scs.append({"scenario": "c04xh", "hists-file": hist_file("c04-hist-twostops5.txt", two), "bound": 1, "glib": 1, "racer-reset": 1, "_shards": 2 * vlib.NCPU, "_nhist": len(two)})
        scs.append({"scenario": "c04xl", "hists-file": hist_file("c04-hist-twostops5.txt", two), "bound": 1, "glib": 0, "racer-reset": 1, "_shards": 2 * vlib.NCPU, "_nhist": len(two)})
        h8 = histories(8)
        scs.append({"scenario": "c04xh", "hists-file": hist_file("c04-hist-8.txt", h8), "bound": 0, "glib": 1, "_shards": 2 * vlib.NCPU, "_nhist": len(h8)})
        scs.append({"scenario": "c04xl", "hists-file": hist_file("c04-hist-8.txt", h8), "bound": 0, "glib": 0, "_shards": 2 * vlib.NCPU, "_nhist": len(h8)})
        h6, h5, h4 = histories(6), histories(5), histories(4)
        scs.append({"scenario": "c04xh", "hists-file": hist_file("c04-hist-6.txt", h6), "bound": 1, "glib": 1, "_shards": 2 * vlib.NCPU, "_nhist": len(h6)})
        scs.append({"scenario": "c04xl", "hists-file": hist_file("c04-hist-6.txt", h6), "bound": 1, "glib": 0, "_shards": 2 * vlib.NCPU, "_nhist": len(h6)})
        scs.append({"scenario": "c04xh", "hists-file": hist_file("c04-hist-5.txt", h5), "bound": 2, "glib": 0, "_shards": 2 * vlib.NCPU, "_nhist": len(h5)})
        scs.append({"scenario": "c04xl", "hists-file": hist_file("c04-hist-4.txt", h4), "bound": 3, "glib": 1, "_shards": vlib.NCPU, "_nhist": len(h4)})
        rc = ["%s %d %d" % (h, i, n) for h in h5 for i in range(len(h) + 1) for n in (1, 2)]
        scs.append({"scenario": "c04xh", "hists-file": hist_file("c04-hist-5-racer.txt", rc), "bound": 1, "glib": 1, "_shards": 2 * vlib.NCPU, "_nhist": len(rc)})
        rc4 = ["%s %d 1" % (h, i) for h in h4 for i in range(len(h) + 1)]
        scs.append({"scenario": "c04xl", "hists-file": hist_file("c04-hist-4-racer.txt", rc4), "bound": 2, "glib": 1, "_shards": vlib.NCPU, "_nhist": len(rc4)})
    return scs


def run(tier):
    scs = []
    if tier == "quick":
        for h in ("h", "l"):
            for path in (1, 2, 3, 4, 5):
                for b in (0, 2):
                    scs.append(dict(scenario="c04%s%d" % (h, path), backlog=b, bound=2, glib=1))
            scs.append(dict(scenario="c04%s4" % h, backlog=1, bound=2, glib=0))
            scs.append(dict(scenario="c04%s2" % h, backlog=2, bound=1, glib=0))
        scs += [dict(scenario="c04h1", backlog=2, racer=1, bound=2, glib=1), dict(scenario="c04h2", backlog=2, racer=1, bound=2, glib=1),
                dict(scenario="c04l2", backlog=1, racer=1, cycles=2, bound=2, glib=1), dict(scenario="c04h2", backlog=1, racer=2, bound=1, glib=1)]
        dl = 400
    else:
        for h in ("h", "l"):
            for path in (1, 2, 3, 4, 5):
                for b in (0, 1, 2, 3):
                    for g in (0, 1):
                        scs.append(dict(scenario="c04%s%d" % (h, path), backlog=b, bound=3 if b <= 2 else 2, glib=g))
        scs += [dict(scenario="c04h1", backlog=2, racer=2, bound=2, glib=1), dict(scenario="c04h2", backlog=2, racer=2, bound=2, glib=1),
                dict(scenario="c04h2", backlog=2, racer=1, bound=3, glib=1), dict(scenario="c04l1", backlog=2, racer=1, bound=2, glib=0),
                dict(scenario="c04l2", backlog=1, racer=1, cycles=2, bound=2, glib=1), dict(scenario="c04h2", backlog=2, racer=1, cycles=2, bound=2, glib=0)]
        dl = 2400
    scs += lifecycle_scenarios(tier)
    rq_viols, rq_n = real_qt(tier)
    race = [dict(scenario="c04h2", backlog=1, racer=1, bound=1, glib=1),
            {"scenario": "c04xl", "hists-file": hist_file("c04-hist-race.txt", ["AMLLRMLX", "MLAR", "AMLXL", "AMLaL", "MLLALR 3 1", "AMLRML 2 1"]), "bound": 1 if tier != "quick" else 0, "glib": 1, "_shards": 6}]
    if tier != "quick":
        race += [dict(scenario="c04l1", backlog=2, bound=1, glib=1), dict(scenario="c04h4", backlog=2, bound=1, glib=0), dict(scenario="c04h2", backlog=2, racer=2, bound=1, glib=1),
                 {"scenario": "c04xh", "hists-file": hist_file("c04-hist-4.txt", histories(4)), "bound": 0, "glib": 1, "_shards": 8}]
    return vsrun.vs_check(
        PROP, tier, scs, deadline_s=dl, race_scenarios=race,
        rule="every interleaving, up to the deviation bound, of the stopping thread, the worker thread and an optional racing producer, for each shutdown path (1 exec() returns -> aboutToQuit, "
             "2 explicit resetOwnThread, 3 destructor with a live application, 4 destructor after the application object is gone without exec(), 5 the same after exec()) x backlog sizes x "
             "both event-dispatcher variants x a bare OwnThreadHandler<Pipeline> and a Logger, optionally 2 move/reset cycles; timeouts of wait(3000) are explored as deviations; oracle per "
             "execution: the stop returns (no deadlock, no livelock in the drain loop), every message accepted before the stop began is delivered when the stop returns, delivered multiset = "
             "accepted multiset (no loss, no duplicate), messages logged after the stop are handled synchronously on the caller's thread, no event is posted to a destroyed worker and no sink "
             "runs after the handler was destroyed; in addition each path x backlog runs once on the real Qt (slow sink) and must exit in time with delivered == accepted. "
             "LIFECYCLE HISTORIES (scenario c04x*): every well-formed sequence up to the length bound of {create / destroy the application object, moveToOwnThread, log, resetOwnThread, "
             "quit+exec (aboutToQuit), nested event loop until idle} on one handler, ended by its destruction, optionally with a racing producer started at every position; each history is "
             "explored over all schedules up to the deviation bound with the same oracles after every stop operation (the stop returns; everything accepted before it is delivered; "
             "messages logged while no logger thread exists are handled synchronously on the caller's thread; at the end delivered = accepted, exactly once, per-thread order); further families: the sink logs a message itself while a stop is delivering the backlog (nested=1); a SECOND thread "
             "calls resetOwnThread() from every position while the main thread performs the history (two overlapping stops: no crash, no hang, nothing lost)",
        assumptions=vsrun.VS_ASSUMPTIONS + ["a racing producer is only explored on paths 1 and 2: calling into an object while its destructor runs is undefined behaviour of the caller"],
        extra_violations=rq_viols, extra_cov={"real_qt_runs": rq_n})


def replay(path):
    import json
    case = json.load(open(path)).get("case", {})
    if "choices" not in case:
        print(open(path).read())
        return 0
    return vsrun.replay(PROP, path)
