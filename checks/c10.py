"""C10: a crash at any mutating system call of a rotating write, or a single failure of rename/link/unlink/create, destroys
no record that had reached a file; a restarted sink keeps them (engine vfs, mode crash)."""
import vlib
import seqxrun
import vfsrun

PROP = "C10"


def run(tier):
    t = vlib.Timer()
    exe = vfsrun.build("plain")   # one fork per crash point / fault / restart: the un-sanitised build forks 4x faster
    if tier == "quick":
        cfgs = vfsrun.cfgs([5], [0, 2, 3], [0, 4, 6, 7]) + vfsrun.cfgs([0], [3], [1, 3, 6, 7]) + vfsrun.cfgs([1], [2], [0, 4], shapes=(1,)) + vfsrun.cfgs([5], [3], [4], shapes=(2,))
        depth = 2
    else:
        cfgs = vfsrun.cfgs([1, 5], [0, 2, 3], range(8)) + vfsrun.cfgs([0], [0, 2, 3], [1, 2, 3, 5, 6, 7]) + vfsrun.cfgs([5], [2, 3], [0, 4, 7], shapes=(1, 2))
        depth = 3
    args = vfsrun.shard_args("crash", cfgs, vlib.NCPU, ["--depth", depth])
    tot, fails = vfsrun.run(exe, args, 6000)
    tot["bound"] = "prefix histories <= %d ops + a final write, %d configurations; every mutating system call of the final write is a crash point; every rename/link/unlink/.gz-create of it fails once (EACCES, ENOSPC); each crash followed by a restart + 3 rotating writes, then a second restart the next day + 3 writes" % (depth, len(cfgs))
    other = vfsrun.split_by_property(tot, PROP)
    tot["distinct_outcomes"] = max(tot["distinct_outcomes"], tot["states"])
    c = tot["counters"]
    if not fails and (c.get("crash_points", 0) < 100 or c.get("faults_injected", 0) < 50):
        raise vlib.EngineError("vacuous crash exploration: %r" % c)
    return seqxrun.finish(
        PROP, tier, "fault_enumeration", tot, t,
        rule="for every configuration and every prefix history whose final write rotates: fork one child per mutating system call k of that write (open-create, write, rename, link, "
             "unlink, ftruncate as issued by Qt) which _exits right before call k; the oracle runs inside the child at that instant with its model: every byte for which write() had "
             "returned on a log file is in an intact plain file or a complete valid gzip (or in a whole file legally removed by retention), files continue the written stream; then a "
             "fresh process restarts a sink on that directory and writes 3 records (each forcing a rotation where possible), under a monitor that checks every unlink/rename/truncate "
             "when it is issued; then a second restart the next virtual day. Separately every rename/link/unlink/.gz-create call fails once. "
             "evaluations = crash points + faults; distinct_nontrivial = distinct directory states left behind by a crash",
        assumptions=vfsrun.COMMON_ASSUMPTIONS + ["process death, not power loss: bytes passed to write() survive (no fsync model)", "single faults only; write()/ENOSPC failures of data writes are outside the property's fault list",
                                                  "Qt's own copy+remove fallback inside QFile::rename (taken when the rename system call fails) is accepted as is"],
        engine_failures=fails, extra_cov={"configurations": len(cfgs), "violations_of_other_properties_seen": other})


def replay(path):
    return vfsrun.replay(PROP, path)
