"""C16: BFS over message sequences for level/duplicate filters and the sequence counter; regex verdicts vs Python re."""
import os, re
import vlib
import seqxrun

PROP = "C16"
B = {"quick": dict(depth=6, nodedup=3, rtok=3, rlen=3, rotok=3), "thorough": dict(depth=10, nodedup=4, rtok=4, rlen=3, rotok=4)}
NSH = 16


def regex_oracle(path):
    strs = [""]
    cur = [""]
    for _ in range(B["thorough"]["rlen"]):
        cur = [s + c for s in cur for c in ("a", "b", "\n")]
        strs += cur
    viol, n, excl, disagree_valid = [], 0, 0, 0
    for line in open(path, encoding="utf-8").read().split("\n"):
        if "\t" not in line:
            continue
        rx, valid, verd = line.split("\t")
        try:
            cre = re.compile(rx)
        except re.error:
            excl += 1
            continue
        if valid != "1":
            disagree_valid += 1   # outside the common grammar: not compared
            continue
        for s, v in zip(strs, verd):
            n += 1
            e = cre.search(s) is not None
            if e != (v == "1"):
                viol.append({"key": "regex:" + rx, "what": "RegExpFilter(%r) %s text %r but the expression %s" % (rx, "passes" if v == "1" else "drops", s, "matches" if e else "does not match"),
                             "replay": vlib.write_replay(PROP, "regex-%d" % len(viol), {"regex": rx, "text": s, "verdict": v})})
                break
    return viol, n, excl, disagree_valid


def run(tier):
    t = vlib.Timer()
    b = B[tier]
    exe = seqxrun.build("c16", ["c16.cpp"])
    rxfile = os.path.join(vlib.BUILD, "c16-regex-%s.tsv" % tier)
    args = [["--depth", b["depth"], "--nodedup-depth", b["nodedup"], "--shard", i, "--nshards", NSH] +
            (["--regex-out", rxfile, "--regex-tokens", b["rtok"], "--regex-len", b["rlen"]] if i == 0 else ["--depth", 0]) +
            ["--regex-options-tokens", b["rotok"]] + (["--long-runs", 1] if i == 2 else [])
            for i in range(NSH)]
    parts = seqxrun.run_shards(exe, args, timeout=3000)
    fails = [p for p in parts if "_crash" in p or "_timeout" in p]
    tot = seqxrun.merge([p for p in parts if p not in fails])
    tot["states"] = parts[0].get("states", 0) if not fails else 0
    viol, n, excl, dv = regex_oracle(rxfile) if not fails else ([], 0, 0, 0)
    tot["cases"] += n
    return seqxrun.finish(
        PROP, tier, "model_checking", tot, t,
        rule="BFS over message sequences (9 texts incl. null/empty/case/whitespace/NFC-NFD and a pair with equal length and equal polynomial hash x 5 types x 2 pipelines sharing one DuplicateFilter and one SeqNumberAttr) "
             "with canonical state read by probing copies of the handlers; all 25 threshold x type pairs of LevelFilter on every message; plus plain enumeration "
             "without state merging to a smaller depth; plus RegExpFilter verdicts for every expression <= K tokens x every text <= 3 over {a,b,LF} against Python re; "
             "plus expressions handed over as QRegularExpression objects: every pattern <= J tokens over {a B blank # . $ ^ LF b* (a) \\1 \\w} x 11 pattern-option sets (case-insensitive, dot-all, multiline, "
             "extended syntax, inverted greediness, no-capture, Unicode properties, three pairs) x 262 texts, oracle: that very expression object applied to the message text; "
             "plus long runs: 254..257, 65534..65538 and 131073 identical messages (and 65538 empty ones from the start) through one DuplicateFilter and one SeqNumberAttr",
        assumptions=["PCRE and Python re agree on the enumerated regex grammar; expressions either engine rejects are excluded (counted)",
                     "a null QString and an empty QString are the same text"],
        engine_failures=fails,
        extra_cov={"regex_verdicts_compared": n, "regex_excluded_invalid_in_python": excl, "regex_excluded_invalid_in_qt_only": dv},
        extra_violations=viol)


def replay(path):
    print(open(path).read())
    return 0
