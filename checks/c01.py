"""C01: every pipeline tree up to a node bound + every fluent builder call sequence (engine seqx/c01.cpp)."""
import vlib
import seqxrun

PROP = "C01"
BOUNDS = {"quick": dict(nodes=5, depth=3, calls=5, scoped_root=0, mut=4), "thorough": dict(nodes=6, depth=3, calls=6, scoped_root=1, mut=5)}
NSH = 16


def arglists(b):
    return [["--nodes", b["nodes"], "--depth", b["depth"], "--calls", b["calls"], "--scoped-root", b["scoped_root"], "--mut-nodes", b["mut"],
             "--shard", i, "--nshards", NSH] for i in range(NSH)]


def run(tier, flavour_build=None):
    t = vlib.Timer()
    exe = (flavour_build or (lambda: seqxrun.build("c01", ["c01.cpp"])))()
    parts = seqxrun.run_shards(exe, arglists(BOUNDS[tier]), timeout=3000)
    fails = [p for p in parts if "_crash" in p or "_timeout" in p]
    tot = seqxrun.merge([p for p in parts if p not in fails])
    return seqxrun.finish(
        PROP, tier, "model_checking", tot, t,
        rule="all forests of handlers (13 leaf kinds incl. null entry, shared counting handler, empty-text formatter, generic handlers; "
             "scoped/unscoped nested pipelines) with <= N nodes and depth <= 3, each evaluated on a 2-message sequence by the real Pipeline and "
             "by a recursive reference interpreter; plus all SimplePipeline fluent call sequences <= K; plus LIVE trees changed between messages: for every forest with <= M nodes "
             "and every node x of it: the tree without x processes a message, x is appended to its pipeline (x last child), two more messages; the tree processes a message, x is removed "
             "from its pipeline / x (a pipeline) is cleared, two more messages - every message must be evaluated in order on the tree as it is at that moment; states = evaluation states "
             "(tree x message sequence), transitions = messages processed / calls applied; distinct_nontrivial = distinct sink observation logs (sampled 1/1024)",
        assumptions=["a formatter returning a null QString is outside the alphabet (ambiguous)",
                     "handlers keep no reference to the message beyond the call"],
        engine_failures=fails)


def replay(path):
    print(open(path).read())
    print("replay: re-run `python3 bin/check.py C01` — the enumeration is deterministic and reports the same minimal tree")
    return 0
