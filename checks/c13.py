"""C13: JSON output is always valid, complete and lossless; compact = one line (engine seqx/c13.cpp + checks/jsonoracle.py)."""
import json
import vlib
import seqxrun
import jsonoracle

PROP = "C13"
LEN = {"quick": 3, "thorough": 3}
NSH = 16


def build():
    return seqxrun.build("c13", ["c13.cpp"], link_flags=["-rdynamic", "-ldl"])


def run(tier, prop=PROP, mode="json"):
    t = vlib.Timer()
    exe = build()
    nsh = NSH if tier == "quick" else 4 * NSH
    tzs = ["UTC"] if mode == "json" else ["UTC", "Europe/Berlin", "Asia/Kathmandu", "America/St_Johns"]
    jobs = [(["--mode", mode, "--len", LEN[tier], "--shard", i, "--nshards", nsh], {"TZ": tzs[i % len(tzs)]}, mode) for i in range(nsh)]
    parts = jsonoracle.run_all(exe, jobs)
    fails = [p["fail"] for p in parts if "fail" in p]
    tot = seqxrun.merge([p["summary"] for p in parts if p.get("summary")])
    checked = sum(p["checked"] for p in parts)
    if not fails and checked != tot["cases"]:
        raise vlib.EngineError("oracle judged %d cases, explorer produced %d" % (checked, tot["cases"]))
    viol, perkey, specials = [], {}, {}
    allids, idtotal = set(), 0
    for p in parts:
        for v in p["violations"]:
            if perkey.get(v["key"], 0) < 2:
                perkey[v["key"]] = perkey.get(v["key"], 0) + 1
                viol.append({"key": v["key"], "what": v["what"], "replay": v["replay"]})
        for k, n in p["raw_specials"].items():
            specials[k] = specials.get(k, 0) + n
        idtotal += len(p["ids"])
        allids |= p["ids"]
    tot["violations"] = viol
    tot["violation_count"] = sum(p["violation_count"] for p in parts)
    if mode == "sentry" and len(allids) != idtotal:
        tot["violations"].append({"key": "sentry:event_id:repeated-across-processes", "what": "%d event ids were produced by more than one process (ids are not fresh across runs)" % (idtotal - len(allids)),
                                  "replay": {"note": "run two shards and compare their first event ids"}})
        tot["violation_count"] += 1
    tot["states"] = tot["cases"]
    tot["replays_ok"] = checked
    tot["samples"] = [s for p in parts for s in p["samples"]][:6]
    shapes = set()
    for p in parts:
        shapes |= p["shapes"]
    tot["distinct_outcomes"] = len(shapes)   # distinct inputs that need escaping, carry custom attributes or a null source location
    if mode == "json":
        rule = ("every string <= K symbols over 46 code points (all C0 controls, quote, backslash, slash, DEL, U+0080, U+0085, U+00E9, U+2028, U+2029, U+FFFD, U+FFFF, U+10000, U+1F600) as message text, "
                "as string attribute value and as attribute name; all pairs of strings <= 1 x 5 types; 35 typed values (int/uint/64-bit up to +-2^53, doubles, bools, nested lists/maps/hashes/string lists) alone, nested and in all ordered pairs; "
                "file x function x category over {null, empty, 3 printable-ASCII strings} x 4 line numbers; 17 near-miss attribute names x typed values; compact and indented; formatters obtained through SimplePipeline::formatToJson(true/false) and JsonFormatter::instance() in all six orders of first use within a process, twice each. "
                "Each output parsed by Python json (strict: single value, no duplicate keys, no NaN) and compared field by field with the expectation built from the inputs")
        assumptions = ["TZ=UTC; the time field is only required to start with the message time to the second",
                       "raw U+2028/U+2029/U+0085 in compact output are legal JSON and not line breaks (LF/CR only), counted in coverage.raw_specials",
                       "null and empty file/function/category are identified"]
    else:
        rule = ("every string <= K symbols over the same 46 code points as message (and, up to 2 symbols, as extra / routed attribute value); 7 categories x 5 types x 4 functions x 5 files; all 256 subsets of the eight routed "
                "attribute names x 4 subsets of two ordinary names; 17 arbitrary names x 35 typed values; message lengths 95..105 code units x 3 fillers with an astral symbol at every position 90..102; 64 KiB message; "
                "clock values around second/minute/day/DST/year boundaries under TZ in {UTC, Europe/Berlin, Asia/Kathmandu, America/St_Johns}; a burst of 2000 identical messages; event ids unique over every event of the run and across processes")
        assumptions = ["routed attribute values are strings (what their producers emit)", "attribute names line/file/thread_id collide with built-in extra keys and are left out",
                       "fingerprint cut accepted as 100 UTF-16 code units (lone half dropped/replaced/completed) or 100 code points",
                       "timestamp accepted as ISO-8601 UTC with Z / +00:00 or epoch seconds"]
    return seqxrun.finish(prop, tier, "exploration", tot, t, rule=rule, assumptions=assumptions, engine_failures=fails,
                          extra_cov={"raw_specials": specials, "event_ids_distinct": len(allids)} if mode == "sentry" else {"raw_specials": specials})


def replay(path):
    case = json.load(open(path))["case"]
    meta = case["meta"]
    print("recorded output:", bytes.fromhex(case["output_hex"]).decode("utf-8", "replace")[:600])
    vs = jsonoracle.check_sentry(meta, bytes.fromhex(case["output_hex"]), set()) if meta["mode"] == "s" else jsonoracle.check_json(meta, bytes.fromhex(case["output_hex"]))
    for k, w in vs:
        print(k, "-", w)
    return 1 if vs else 0
