"""C19: configuration front-ends build the documented pipeline, end to end (engine procx: one child per configuration;
engine seqx/c19.cpp: handler-protocol histories)."""
import concurrent.futures
import glob
import gzip
import itertools
import json
import os
import pty
import re
import select
import shutil
import subprocess
import tempfile

import vlib
import seqxrun

PROP = "C19"

# the message stream of engine/procx/c19child.cpp: (type, category, text)
def stream(run):
    return [("debug", "net", "keep alpha"), ("info", "ui.main", "beta skip"), ("warning", "net", "keep gamma"),
            ("critical", "default", "keep delta"), ("info", "net", "keep eps"), ("debug", "ui.main", "keep zeta %d" % run),
            ("debug", "default", "keep worker"), ("warning", "net", "keep omega")]      # the last two from a second thread

RULES = [None, "*.debug=false", "ui.*=false;net.warning=false;net.warning=true"]
REGEXPS = [None, "^keep"]
PATTERNS = [None, "%{type}|%{category}|%{message}"]
ANSI = re.compile(r"\x1b\[[0-9;]*m")
COLOR = {"debug": "\x1b[90m", "info": "\x1b[32m", "warning": "\x1b[33m", "critical": "\x1b[31m"}


def glob_match(pat, s):
    rx = "^" + ".*".join(re.escape(p) for p in pat.split("*")) + r"\Z"
    return re.match(rx, s, re.S) is not None


def rule_pass(rules, cat, typ):
    en = True
    if not rules:
        return True
    for line in re.split(r"[;\n]", rules):
        m = re.match(r"^\s*(\S+?)\s*=\s*(true|false)\s*$", line)
        if not m:
            continue
        pat, t = m.group(1), None
        for suf in ("debug", "info", "warning", "critical"):
            if pat.endswith("." + suf) and len(pat) > len(suf) + 1:
                pat, t = pat[:-len(suf) - 1], suf
                break
        if (t is None or t == typ) and glob_match(pat, cat):
            en = m.group(2) == "true"
    return en


def expected_msgs(cfg, run):
    out = []
    for typ, cat, text in stream(run):
        if not rule_pass(cfg.get("filter_rules"), cat, typ):
            continue
        if cfg.get("regexp_filter") and not re.search(cfg["regexp_filter"], text):
            continue
        out.append((typ, cat, text))
    return out


def fmt(cfg, m):
    return "%s|%s|%s" % m if cfg.get("message_pattern") else None


DECOY_GROUP = '[logger]\nstdout=true\nmessage_pattern="DECOY %{message}"\nplatform_std_log=false\n\n'


def ini_text(cfg, group="logger"):
    lines = ["[%s]" % group]
    for k, v in cfg.items():
        if k.startswith("_") or v is None:
            continue
        if isinstance(v, bool):
            lines.append("%s=%s" % (k, "true" if v else "false"))
        elif isinstance(v, int):
            lines.append("%s=%d" % (k, v))
        else:
            lines.append('%s="%s"' % (k, v.replace("%", "%")))
    return (DECOY_GROUP if group != "logger" else "") + "\n".join(lines) + "\n"


def run_child(argv, tty):
    """tty: False/"" (both pipes), "both", "out" (only stdout is a terminal), "err" (only stderr is). -> (rc, stdout text, stderr text)"""
    env = dict(os.environ, LC_ALL="C.UTF-8", TZ="UTC", QT_LOGGING_RULES="*.debug=true", QT_MESSAGE_PATTERN="", QT_FATAL_WARNINGS="")
    if not tty:
        r = subprocess.run(argv, capture_output=True, timeout=60, env=env)
        return r.returncode, r.stdout.decode("utf-8", "replace"), r.stderr.decode("utf-8", "replace")
    mo, so = pty.openpty() if tty in ("both", "out", True) else os.pipe()
    me, se = pty.openpty() if tty in ("both", "err", True) else os.pipe()
    p = subprocess.Popen(argv, stdout=so, stderr=se, stdin=subprocess.DEVNULL, env=env, close_fds=True)
    os.close(so)
    os.close(se)
    bufs = {mo: b"", me: b""}
    live = {mo, me}
    while live:
        r, _, _ = select.select(list(live), [], [], 30)
        if not r:
            break
        for fd in r:
            try:
                d = os.read(fd, 65536)
            except OSError:
                d = b""
            if not d:
                live.discard(fd)
            else:
                bufs[fd] += d
    rc = p.wait(timeout=30)
    os.close(mo)
    os.close(me)
    return rc, bufs[mo].decode("utf-8", "replace").replace("\r\n", "\n"), bufs[me].decode("utf-8", "replace").replace("\r\n", "\n")


def rot_key(name):
    m = re.match(r"app\.(\d{4}-\d{2}-\d{2})\.(\d+)\.log(\.gz)?$", name)
    return (m.group(1), int(m.group(2)))


def read_files(d):
    names = [os.path.basename(p) for p in glob.glob(os.path.join(d, "app.*.log*"))]
    names = sorted([n for n in names if re.match(r"app\.\d{4}-\d{2}-\d{2}\.\d+\.log(\.gz)?$", n)], key=rot_key)
    text = b""
    for n in names:
        raw = open(os.path.join(d, n), "rb").read()
        text += gzip.decompress(raw) if n.endswith(".gz") else raw
    act = os.path.join(d, "app.log")
    if os.path.exists(act):
        text += open(act, "rb").read()
    return text.decode("utf-8", "replace"), len(names), names


def file_shape(names, compress, startup, size_small, daily, first_run_wrote, what):
    """which rotated files must exist and what they must be called, from the file keys alone"""
    v = []
    gz = [n for n in names if n.endswith(".gz")]
    if compress and len(gz) != len(names):
        v.append(("file:not-compressed", "%s: compress_old_files is set but rotated files are left uncompressed: %r" % (what, [n for n in names if not n.endswith(".gz")][:3])))
    if not compress and gz:
        v.append(("file:compressed", "%s: compress_old_files is not set but rotated files are compressed: %r" % (what, gz[:3])))
    if startup and first_run_wrote and not names:
        v.append(("file:no-startup-rotation", "%s: rotate_on_startup is on and the second run found a non-empty log, but no rotated file exists" % what))
    if not startup and not size_small and not daily and names:
        v.append(("file:unexpected-rotation", "%s: nothing asks for a rotation (rotate_on_startup off, default size limit, no daily rotation) but rotated files exist: %r" % (what, names[:3])))
    return v


def lines_of(text):
    ls = text.split("\n")
    if ls and ls[-1] == "":
        ls.pop()
    return ls


def judge_stream(name, got_lines, msgs, cfg, copies, colored, what):
    """got_lines must be: each expected message `copies` times in a row, in order; formatted per pattern or (pretty) containing text+category"""
    v = []
    exp_n = len(msgs) * copies
    if len(got_lines) != exp_n:
        v.append(("%s:count" % name, "%s: %d lines on %s, expected %d (%d messages x %d configured outputs): %r" % (what, len(got_lines), name, exp_n, len(msgs), copies, got_lines[:8])))
        return v
    for i, m in enumerate(msgs):
        for c in range(copies):
            line = got_lines[i * copies + c]
            plain = ANSI.sub("", line)
            col = colored[c] if isinstance(colored, (list, tuple)) else colored
            if col is True and not (line.startswith(COLOR[m[0]]) and line.endswith("\x1b[0m")):
                v.append(("%s:colour-missing" % name, "%s: line %r on %s is not wrapped in the colour of a %s message" % (what, line, name, m[0])))
            if col is False and plain != line:
                v.append(("%s:colour-unexpected" % name, "%s: line %r on %s carries colour codes although colour is off / the stream is no terminal" % (what, line, name)))
            f = fmt(cfg, m)
            if f is not None:
                if plain != f:
                    v.append(("%s:format" % name, "%s: line %r on %s, expected %r" % (what, plain, name, f)))
            else:
                if m[2] not in plain or (m[1] != "default" and ("[%s]" % m[1]) not in plain):
                    v.append(("%s:content" % name, "%s: line %r on %s does not carry message %r / category %r" % (what, plain, name, m[2], m[1])))
    return v


def one_ini(job):
    exe, root, cfg, use_pty, mode = job
    d = tempfile.mkdtemp(prefix="c19-", dir=root)
    try:
        c = dict(cfg)
        if c.get("path"):
            c["path"] = os.path.join(d, "app.log")
        ini = os.path.join(d, "cfg.ini")
        open(ini, "w").write(ini_text(c, "audit" if mode.startswith("inig") else "logger"))
        what = "INI%s %s%s" % ({"inig": " in group [audit] next to a decoy group [logger]", "inig2": " in group [audit], after another Logger object was configured from the decoy group [logger]"}.get(mode, ""), json.dumps({k: v for k, v in cfg.items() if v is not None}, sort_keys=True), " [terminal: %s]" % use_pty if use_pty else "")
        viols, all_msgs, renderings = [], [], {}
        runs = 2 if c.get("path") else 1
        for run in range(runs):
            rc, so, se = run_child([exe, mode, ini, str(run)], use_pty)
            if rc != 0:
                return {"engine": "c19child rc=%r stderr=%r cfg=%s" % (rc, se[-300:], what)}
            msgs = expected_msgs(cfg, run)
            all_msgs += msgs
            out_on = bool(cfg.get("stdout") or cfg.get("stdout_color"))
            err_copies = (1 if (cfg.get("stderr") or cfg.get("stderr_color")) else 0) + (0 if cfg.get("platform_std_log") is False else 1)
            ol, el = lines_of(so), lines_of(se)
            if not out_on and ol:
                viols.append(("stdout:unconfigured", "%s: output on stdout although no stdout key is set: %r" % (what, ol[:3])))
            out_tty, err_tty = use_pty in ("both", "out", True), use_pty in ("both", "err", True)
            if out_on:
                viols += judge_stream("stdout", ol, msgs, cfg, 1, bool(cfg.get("stdout_color")) and out_tty, what)
            if err_copies == 0 and el:
                viols.append(("stderr:unconfigured", "%s: output on stderr although neither stderr nor platform_std_log is on: %r" % (what, el[:3])))
            if err_copies:
                # the stderr sink (coloured on a terminal when stderr_color) comes first, the platform sink (Auto colour) second
                # copy 1 = the stderr sink (colour only when stderr_color is set and stderr is a terminal), copy 2 = the platform sink (never coloured)
                cols = ([bool(cfg.get("stderr_color")) and err_tty] if (cfg.get("stderr") or cfg.get("stderr_color")) else []) + ([False] if cfg.get("platform_std_log") is not False else [])
                viols += judge_stream("stderr", el, msgs, cfg, err_copies, cols, what)
            # all streams show the same formatted text
            po, pe = [ANSI.sub("", x) for x in ol], [ANSI.sub("", x) for x in el]
            if out_on and err_copies and not viols and po != pe[::err_copies]:
                viols.append(("streams-differ", "%s: stdout shows %r, stderr shows %r" % (what, po[:3], pe[:3])))
            # without message_pattern: how each message was rendered (timestamp removed), for the cross-configuration comparison
            if not cfg.get("message_pattern") and not viols:
                shown = po if out_on else pe[::err_copies] if err_copies else []
                for m, line in zip(msgs, shown):
                    renderings.setdefault(m[2], set()).add(re.sub(r"^\S+ \S+ ", "", line, count=1))
        nrot = 0
        if c.get("path"):
            text, nrot, rnames = read_files(d)
            fl = lines_of(text)
            viols += file_shape(rnames, bool(cfg.get("compress_old_files")), cfg.get("rotate_on_startup") is not False, (cfg.get("max_file_size") or 0) > 0,
                                bool(cfg.get("rotate_daily")), bool(expected_msgs(cfg, 0)), what)
            retention = (cfg.get("max_file_size") or 0) > 0     # small size limit: more rotations than max_file_count (2, or 5 by default) keeps
            full = len(all_msgs)
            if retention:
                # files may have been removed by retention: what is left is a line-aligned suffix, at least the last record
                k = len(fl)
                if k > full or (full and k == 0):
                    viols.append(("file:count", "%s: %d lines in the log files, %d messages were logged" % (what, k, full)))
                else:
                    viols += judge_stream("file", fl, all_msgs[full - k:], cfg, 1, False, what)
            else:
                viols += judge_stream("file", fl, all_msgs, cfg, 1, False, what)
        else:
            if glob.glob(os.path.join(d, "*.log*")):
                viols.append(("file:unconfigured", "%s: a log file appeared although no path is configured" % what))
        return {"viols": viols, "cfg": cfg, "rotated": nrot, "msgs": len(all_msgs), "pty": use_pty, "renderings": renderings}
    finally:
        shutil.rmtree(d, ignore_errors=True)


def one_line(job):
    exe, root, (has_path, size, count, opts, asyn), use_pty = job
    d = tempfile.mkdtemp(prefix="c19-", dir=root)
    try:
        what = "configure(path=%s, size=%d, count=%d, options=%d, async=%s)" % ("file" if has_path else "empty", size, count, opts, asyn)
        viols, err_all, nmsgs = [], [], 0
        runs = 2 if has_path else 1
        for run in range(runs):
            rc, so, se = run_child([exe, "oneline", os.path.join(d, "app.log") if has_path else "-", str(size), str(count), str(opts), "1" if asyn else "0", str(run)], use_pty)
            if rc != 0:
                return {"engine": "c19child rc=%r stderr=%r %s" % (rc, se[-300:], what)}
            msgs = stream(run)
            nmsgs += len(msgs)
            el = lines_of(se)
            if lines_of(so):
                viols.append(("oneline:stdout", "%s: output on stdout" % what))
            viols += judge_stream("stderr", el, msgs, {}, 1, None, what)
            err_all += el
        nrot = 0
        if has_path:
            text, nrot, rnames = read_files(d)
            fl = lines_of(text)
            want = [ANSI.sub("", x) for x in err_all]
            viols += file_shape(rnames, bool(opts & 4), bool(opts & 1), size > 0, bool(opts & 2), True, what)
            if count >= 2 and size > 0:
                k = len(fl)
                if k > len(want) or k == 0 or fl != want[len(want) - k:]:
                    viols.append(("oneline:file", "%s: the log files hold %r, the console text without colour codes ends with %r" % (what, fl[-3:], want[-3:])))
            elif fl != want:
                viols.append(("oneline:file", "%s: the log files hold %d lines %r..., the console text without colour codes is %d lines %r..." % (what, len(fl), fl[:2], len(want), want[:2])))
            if any("\x1b" in x for x in fl):
                viols.append(("oneline:file-colour", "%s: the log file contains terminal colour codes" % what))
        elif glob.glob(os.path.join(d, "*")):
            viols.append(("oneline:file-unconfigured", "%s: a file appeared although the path is empty" % what))
        return {"viols": viols, "cfg": what, "rotated": nrot, "msgs": nmsgs, "pty": use_pty}
    finally:
        shutil.rmtree(d, ignore_errors=True)


def ini_space(tier):
    bools7 = list(itertools.product([None, True], repeat=4))          # stdout, stdout_color, stderr, stderr_color (absent = false)
    plat = [None, False, True]
    if tier == "quick":
        files = [dict(), dict(path=True), dict(path=True, max_file_size=60, max_file_count=2, compress_old_files=True), dict(path=True, rotate_daily=True, rotate_on_startup=False, max_file_size=60)]
    else:
        files = [dict()]
        for size, cnt, ros, daily, comp in itertools.product([None, 60], [None, 2], [None, False], [None, True], [None, True]):
            files.append(dict(path=True, max_file_size=size, max_file_count=cnt, rotate_on_startup=ros, rotate_daily=daily, compress_old_files=comp))
    out = []
    for r, x, p, (so, soc, se, sec), pl, f, a in itertools.product(RULES if tier != "quick" else RULES[:2] , REGEXPS, PATTERNS, bools7, plat, files, [None, True]):
        cfg = dict(filter_rules=r, regexp_filter=x, message_pattern=p, stdout=so, stdout_color=soc, stderr=se, stderr_color=sec, platform_std_log=pl, **{"async": a})
        cfg.update(f)
        out.append(cfg)
    if tier == "quick":
        out += [dict(filter_rules=RULES[2], message_pattern=PATTERNS[1], path=True, stdout=True, platform_std_log=False, **{"async": a}) for a in (None, True)]
    return out


def run(tier):
    t = vlib.Timer()
    lib = vlib.build_lib("plain")
    exe = vlib.build_exe("c19child", [os.path.join(vlib.VERIF, "engine", "procx", "c19child.cpp")], "plain", lib)
    hexe = seqxrun.build("c19", ["c19.cpp"])
    root = tempfile.mkdtemp(prefix="verif-c19-", dir="/dev/shm")
    try:
        cfgs = ini_space(tier)
        jobs = [(exe, root, c, False, ("ini", "settings", "inig", "settings", "ini", "inig2")[i % 6]) for i, c in enumerate(cfgs)]
        # terminal variant of the colour keys (stdout / stderr are ptys)
        ptyc = [c for c in cfgs if not c.get("path") and not c.get("filter_rules") and not c.get("regexp_filter") and c.get("message_pattern")]
        if tier == "quick":
            ptyc = ptyc[::3]
        jobs += [(exe, root, c, tty, "ini") for c in ptyc for tty in ("both", "out", "err")]
        one = [(exe, root, (hp, size, cnt, opts, a), False) for hp in (False, True) for size in (0, 60) for cnt in (0, 2) for opts in range(8) for a in (False, True)]
        with concurrent.futures.ThreadPoolExecutor(max_workers=vlib.NCPU) as ex:
            res = list(ex.map(one_ini, jobs))
            res1 = list(ex.map(one_line, one))
        hist = seqxrun.run_one(hexe, ["--depth", 6 if tier == "quick" else 8], timeout=3000)
    finally:
        shutil.rmtree(root, ignore_errors=True)
    eng = [r for r in res + res1 if "engine" in r]
    if eng:
        raise vlib.EngineError(eng[0]["engine"])
    # the default format (no message_pattern) of a message is a function of the message: it must not depend on the other keys
    # (which messages the filters let through before it, which outputs are on, async) - compared across ALL configurations of the run
    allr = {}
    for r in res:
        for text, forms in r.get("renderings", {}).items():
            allr.setdefault(text, {})
            for f in forms:
                allr[text].setdefault(f, r["cfg"])
    cross = []
    for text, forms in allr.items():
        if len(forms) > 1:
            (f1, c1), (f2, c2) = list(forms.items())[:2]
            cross.append(("default-format-depends-on-configuration", "without message_pattern the message %r is rendered as %r under %s but as %r under %s" % (
                text, f1, json.dumps({k: v for k, v in c1.items() if v is not None}, sort_keys=True), f2, json.dumps({k: v for k, v in c2.items() if v is not None}, sort_keys=True))))
    if cross:
        res.append({"viols": cross[:2], "cfg": "cross-configuration", "pty": False})
    fails = [hist] if ("_crash" in hist or "_timeout" in hist) else []
    tot = seqxrun.merge([] if fails else [hist])
    viols, seen = [], {}
    for r in res + res1:
        for key, what in r["viols"]:
            n = seen.get(key, 0)
            seen[key] = n + 1
            if n < 2:
                viols.append({"key": key, "what": what, "replay": vlib.write_replay(PROP, "%s-%s-%d" % (tier, re.sub(r"[^a-z]+", "-", key), n), {"cfg": r["cfg"], "pty": r["pty"], "what": what})})
            else:
                viols.append({"key": key, "what": what})
    tot["cases"] += len(res) + len(res1)
    tot["replays_ok"] = len(res) + len(res1)
    tot["distinct_outcomes"] += len(set(json.dumps(r["cfg"], sort_keys=True) + str(r["pty"]) for r in res + res1 if r.get("msgs")))
    nchild = sum(2 if (isinstance(r.get("cfg"), dict) and r["cfg"].get("path")) else 1 for r in res) + len(res1) * 2
    return seqxrun.finish(
        PROP, tier, "model_checking", tot, t,
        rule="(a) INI: the full product of key values {filter_rules: absent / *.debug=false / an ordered 3-rule list} x {regexp_filter: absent / ^keep} x {message_pattern: absent / %{type}|%{category}|%{message}} x "
             "{stdout, stdout_color, stderr, stderr_color: absent / true} x {platform_std_log: absent(=on) / false / true} x file variants (absent; path x max_file_size x max_file_count x rotate_on_startup x rotate_daily x "
             "compress_old_files) x {async: absent / true}; each configuration is one child process per run (two runs = a restart when a file is configured) that loads the INI through configureFromIniFile() or a QSettings "
             "object (or from a non-default group [audit] next to a decoy group [logger], with or without another Logger object of the process configured from the decoy group first), logs eight messages (two categories + default, four types, one not matching the regexp; the last two from a second thread) through Qt's macros and stops; oracle per stream: exactly the messages passing the configured filters (independent "
             "Python rule/regex reference), once per configured output and in order (stderr carries one copy per stderr-type output), formatted exactly when a pattern is given and otherwise carrying text + [category], no output "
             "on an unconfigured stream, no file without a path, files (rotated + gzip decoded, in date/index order) hold every line once (a line-aligned suffix under retention); terminal variants (both streams / only stdout / only stderr on a pty) check colour per key and per stream; "
             "with a file: rotated files are .gz exactly when compress_old_files is set, a restart rotates the old file exactly when rotate_on_startup is on. "
             "(b) one-line configure(): all 128 argument tuples, file text == stderr text minus colour codes. (c) handler protocol: every history up to the depth bound of install(A) / install(B) / restore / foreign(F1) / "
             "foreign(F2) on the real functions, observed by emitting a message after every step, against the reference model of the property (accept-set where a foreign handler was installed between two installs)",
        assumptions=["PrettyFormatter's column layout is not a documented contract: without message_pattern a line is matched by message text and [category]", "QT_LOGGING_RULES=*.debug=true so that Qt's own category switch lets every message through to the handler",
                     "retention may remove old files when max_file_count=2 with a size limit: the files then hold a line-aligned suffix"],
        engine_failures=fails, extra_violations=viols,
        extra_cov={"ini_configurations": len(cfgs), "pty_configurations": len(ptyc), "oneline_tuples": len(one), "child_processes": nchild,
                   "configurations_with_rotated_files": sum(1 for r in res + res1 if r.get("rotated", 0) > 0)})


def replay(path):
    print(open(path).read())
    return 0
