"""C14: no input can crash, corrupt memory or hang formatting and filtering (engine seqx/c14.cpp, ASan+UBSan, watchdog)."""
import concurrent.futures
import json
import os
import re
import struct
import subprocess
import tempfile

import vlib
import seqxrun

PROP = "C14"
DOMAINS = ["func", "pattern", "rules", "message"]
LEN = {"quick": {"func": 5, "pattern": 4, "rules": 4, "message": 4}, "thorough": {"func": 6, "pattern": 5, "rules": 5, "message": 5}}
NSH = {"quick": 8, "thorough": 32}


def read_marker(path):
    try:
        raw = open(path, "rb").read()
        case, done, tlen = struct.unpack_from("<qqq", raw, 0)
        dom = raw[24:40].split(b"\0")[0].decode()
        text = raw[40:440].split(b"\0")[0]
        return case, done, tlen, dom, text
    except Exception:
        return -1, 0, 0, "?", b""


def classify(rc, err):
    if rc == 4 or "C14-WATCHDOG" in err:
        return "hang"
    m = re.search(r"AddressSanitizer: ([a-z\-]+)", err)
    if m:
        return "asan:" + m.group(1)
    m = re.search(r"runtime error: ([^\n]{0,60})", err)
    if m:
        return "ubsan:" + re.sub(r"[0-9]+", "N", m.group(1))[:40]
    if rc < 0:
        return "signal:%d" % -rc
    return "exit:%d" % rc


def shard(job):
    exe, base, root = job
    marker = tempfile.mktemp(prefix="c14-marker-", dir=root)
    env = dict(os.environ)
    env.update(seqxrun.ASAN_ENV)
    start, out, viols, restarts = 0, {"cases": 0, "digest": [], "outcomes": 0}, [], 0
    budget = 600 if "--long" in base else 3000
    while True:
        try:
            r = subprocess.run([exe] + [str(a) for a in base] + ["--start", str(start), "--marker", marker], capture_output=True, text=True, env=env, timeout=budget, errors="replace")
            rc, so, se = r.returncode, r.stdout, r.stderr
        except subprocess.TimeoutExpired:
            rc, so, se = 4, "", "C14-WATCHDOG: shard wall-clock limit"
        js = None
        for line in reversed(so.strip().splitlines()):
            if line.startswith("{"):
                try:
                    js = json.loads(line)
                    break
                except ValueError:
                    pass
        if rc == 0 and js is not None:
            out["cases"] += js.get("cases", 0)
            out["outcomes"] = max(out["outcomes"], js.get("distinct_outcomes", 0))
            out["digest"].append(js.get("digest"))
            out["bound"] = js.get("bound", "")
            break
        case, done, tlen, dom, text = read_marker(marker)
        if case < 0 or case < start:
            out["fail"] = {"_crash": True, "_rc": rc, "_args": base, "_stderr": se[-2000:]}
            break
        kind = classify(rc, se)
        if kind == "hang" and out.get("confirmed_hangs", 0) < 2:
            # re-run the one case alone with a larger budget before calling it a hang (a loaded machine can starve a shard); once two
            # cases of a shard have hung again on their own, further ones are taken at face value - a real hang costs the full budget each time
            out["confirmed_hangs"] = out.get("confirmed_hangs", 0) + 1
            try:
                r2 = subprocess.run([exe] + [str(a) for a in base] + ["--only", str(case), "--budget", str(30 if "--long" not in base else 300)],
                                    capture_output=True, text=True, env=env, timeout=400, errors="replace")
                if r2.returncode == 0:
                    out["slow_under_load"] = out.get("slow_under_load", 0) + 1
                    out["confirmed_hangs"] -= 1
                    start = case + 1
                    continue
            except subprocess.TimeoutExpired:
                pass
        viols.append({"key": "%s:%s" % (dom, kind),
                      "what": "%s input #%d (%d bytes, begins %r) makes the library fail: %s" % (dom, case, tlen, text[:60].decode("utf-8", "replace"), kind),
                      "replay": {"args": [str(a) for a in base], "only": case, "kind": kind, "text_prefix_hex": text.hex(), "stderr_tail": se[-1500:]}})
        out["cases"] += max(0, done - start) // max(1, int(base[base.index("--nshards") + 1]))
        start = case + 1
        restarts += 1
        if restarts > 8:
            out["capped"] = True
            break
    if os.path.exists(marker):
        os.unlink(marker)
    out["viols"] = viols
    return out


def build():
    return seqxrun.build("c14", ["c14.cpp"])


def run(tier):
    t = vlib.Timer()
    exe = build()
    root = tempfile.mkdtemp(prefix="verif-c14-", dir="/dev/shm")
    jobs = []
    n = NSH[tier]
    for d in DOMAINS:
        for i in range(n):
            jobs.append((exe, ["--domain", d, "--len", LEN[tier][d], "--shard", i, "--nshards", n], root))
        ln = 6 if tier == "quick" else 12
        cap = 4096 if tier == "quick" else 65536
        for i in range(ln):
            jobs.append((exe, ["--domain", d, "--long", 1, "--cap", cap, "--shard", i, "--nshards", ln], root))
    try:
        with concurrent.futures.ThreadPoolExecutor(max_workers=vlib.NCPU) as ex:
            parts = list(ex.map(shard, jobs))
    finally:
        import shutil
        shutil.rmtree(root, ignore_errors=True)
    fails = [p["fail"] for p in parts if "fail" in p]
    tot = seqxrun.merge([])
    tot["cases"] = sum(p["cases"] for p in parts)
    tot["states"] = tot["transitions"] = tot["cases"]
    tot["distinct_outcomes"] = sum(p["outcomes"] for p in parts)
    tot["exhaustive"] = not any(p.get("capped") for p in parts)
    seen = {}
    for p in parts:
        for v in p["viols"]:
            tot["violation_count"] += 1
            if seen.get(v["key"], 0) < 2:
                seen[v["key"]] = seen.get(v["key"], 0) + 1
                tot["violations"].append(v)
    tot["bound"] = "token strings <= %s tokens (per domain); long family to %d bytes" % (LEN[tier], 4096 if tier == "quick" else 65536)
    per = {}
    for (exe_, base, _r), p in zip(jobs, parts):
        k = base[1] + ("_long" if "--long" in base else "")
        per[k] = per.get(k, 0) + p["cases"]
    tot["counters"] = per
    return seqxrun.finish(
        PROP, tier, "exploration", tot, t,
        rule="every token string up to the bound over four syntax alphabets - function signatures / file names (brackets, ::, operator, lambda, (*, )(, with, spaces ...), patterns (% { } : ? , < > ^ ! digits if- endif "
             "time shortfile U+200B ...), category rules (. * = true false ; LF debug critical and regex metacharacters), messages (LF, astral, combining, bidi, quotes, backslash, control) - is pushed through "
             "%{func}/%{function}/%{shortfile} with truncating specs, PatternFormatter construction + format for three types, CategoryFilter construction + probes (incl. the rule text as category), a menu of 12 "
             "regular expressions (incl. catastrophic-backtracking shapes), Pretty (plain / colour), JSON and Sentry formatters with the text as message AND category/file/function; plus a finite long family: "
             "every token, every ordered token pair and a^n b^n repeated to the size cap. Build: ASan + UBSan (signed overflow, bounds, null, shifts), per-case watchdog 5 s (120 s long family); a sanitizer "
             "report / signal / watchdog exit is attributed to one case through a shared marker and the shard restarts after it",
        assumptions=["exhaustive to the token bound only; not a substitute for coverage-guided fuzzing of 64 KiB inputs", "widths stay below 10^6 by construction of the alphabet (a width of 2^31 is a resource question)",
                     "PCRE's own match limits make pathological expressions fail to match rather than hang; that counts as terminating"],
        engine_failures=fails)


def replay(path):
    exe = build()
    case = json.load(open(path))["case"]
    env = dict(os.environ)
    env.update(seqxrun.ASAN_ENV)
    r = subprocess.run([exe] + case["args"] + ["--only", str(case["only"])], capture_output=True, text=True, env=env, timeout=600, errors="replace")
    print(r.stderr[-3000:])
    print(r.stdout[-500:])
    return 1 if r.returncode != 0 else 0
