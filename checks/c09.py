"""C09: daily rotation keeps days apart; rotated names are dated, unique, indices increase (engine vfs, mode hist)."""
import vfsrun

PROP = "C09"


def run(tier):
    QUICK_CFGS = lambda: vfsrun.cfgs([0, 5], [0, 2, 3], [2, 3, 6, 7]) + vfsrun.cfgs([5], [2], [0, 1, 4]) + vfsrun.cfgs([5], [0, 3], [2, 6], shapes=(5,))
    extra = []
    if tier == "quick":
        cfgs = QUICK_CFGS()
        depth = 4
    else:
        cfgs = vfsrun.cfgs([0, 1, 5, 8], [0, 2, 3], [2, 3, 6, 7]) + vfsrun.cfgs([5], [0, 2, 3], [0, 1, 4, 5]) + vfsrun.cfgs([5], [2, 3], [2, 7], ticks=(1,))
        depth = 4
        extra = [(QUICK_CFGS(), 5)]      # depth 5 on the quick configuration set, depth 4 on the full set: sized to finish (see vfsrun.DEADLINE)
    deep = (vfsrun.cfgs([0, 5], [0, 3], [2, 3, 6, 7]), 6) if tier == 'quick' else (cfgs, 7)
    reconf = (vfsrun.cfgs([0, 5], [0, 3], [2, 6]), 5) if tier == 'quick' else (vfsrun.cfgs([0, 1, 5], [0, 2, 3], [2, 6]), 7)
    return vfsrun.hist_check(
        PROP, tier, cfgs, depth, maxday=2,
        rule="every operation history up to the depth bound mixing writes, day jumps of 1-2 days (crossing Feb 28 -> Feb 29 -> Mar 1), size rotations, restarts (the active "
             "file then carries a virtual modification time from an earlier day) and retention removals, with daily rotation on; after every operation each file is located "
             "in the written stream: all its records were written on one day and a rotated file's name carries that day; every rename target is checked at the system call: "
             "never an existing path, never a name used before; indices per date strictly increase in order of appearance (also checked without daily rotation)",
        deep=deep, reconf=reconf, assumptions=vfsrun.COMMON_ASSUMPTIONS + ["the clock only moves forward"],
        long_cfgs=vfsrun.cfgs([1], [0, 3], [2, 6]), long_writes=(12,))


def replay(path):
    return vfsrun.replay(PROP, path)
