"""C11: a fatal message and everything before it reach the log file (engine procx: enumerated child processes killed by qFatal)."""
import concurrent.futures, glob, os, re, shutil, subprocess, tempfile
import vlib

PROP = "C11"
SIZES = {"quick": [10, 16383, 16385], "thorough": [0, 10, 4095, 16383, 16384, 16385, 40000]}
NS = {"quick": [0, 1, 3], "thorough": [0, 1, 2, 3, 5]}
CFGS = ["fluent", "nested", "oneline", "ini"]
SINKS = ["file", "rotbig", "rotsmall", "rotdaily"]
THREADS = ["main", "sec"]


def build():
    lib = vlib.build_lib("plain")
    return vlib.build_exe("c11child", [os.path.join(vlib.VERIF, "engine", "procx", "c11child.cpp")], "plain", lib)


def rot_key(name):
    m = re.match(r"app\.(\d{4}-\d{2}-\d{2})\.(\d+)\.log", name)
    return (m.group(1), int(m.group(2)))


def one(exe, root, case):
    cfg, sink, thr, n, size = case
    d = tempfile.mkdtemp(prefix="c11-", dir=root)
    try:
        r = subprocess.run([exe, d, cfg, sink, thr, str(n), str(size)], capture_output=True, timeout=60,
                           env=dict(os.environ, LC_ALL="C.UTF-8", TZ="UTC", QT_LOGGING_RULES="", QT_MESSAGE_PATTERN="", QT_FATAL_WARNINGS=""))
        res = {"case": {"cfg": cfg, "sink": sink, "thread": thr, "n": n, "size": size}, "rc": r.returncode}
        if r.returncode != -6:
            res["engine"] = "child did not die by SIGABRT (rc=%d) %s" % (r.returncode, r.stderr[-300:].decode("utf-8", "replace"))
            return res
        rot = sorted([os.path.basename(p) for p in glob.glob(os.path.join(d, "app.*.log"))], key=rot_key)
        text = b""
        for f in rot + ["app.log"]:
            p = os.path.join(d, f)
            if os.path.exists(p):
                text += open(p, "rb").read()
        pay = b"x" * size
        expect = [b"m%d:%s" % (i, pay) for i in range(n)] + [b"FATAL:" + pay]
        pos, missing = 0, []
        for i, e in enumerate(expect):
            k = text.find(e + b"\n", pos) if cfg != "oneline" else text.find(e, pos)
            if k < 0:
                missing.append("the fatal message" if i == n else "message %d" % i)
            else:
                pos = k + len(e)
        lines = text.count(b"\n")
        res["missing"] = missing
        res["files"] = len(rot) + 1
        res["bytes"] = len(text)
        if not missing and lines != n + 1:
            res["missing"] = ["(line count %d != %d: duplicated or split records)" % (lines, n + 1)]
        return res
    finally:
        shutil.rmtree(d, ignore_errors=True)


def run(tier):
    t = vlib.Timer()
    exe = build()
    cases = [(c, s, th, n, sz) for c in CFGS for s in SINKS for th in THREADS for n in NS[tier] for sz in SIZES[tier]]
    root = tempfile.mkdtemp(prefix="verif-c11-", dir="/dev/shm")
    try:
        with concurrent.futures.ThreadPoolExecutor(max_workers=vlib.NCPU) as ex:
            results = list(ex.map(lambda c: one(exe, root, c), cases))
    finally:
        shutil.rmtree(root, ignore_errors=True)
    eng = [r for r in results if "engine" in r]
    if eng:
        raise vlib.EngineError(eng[0]["engine"] + " case=%r" % (eng[0]["case"],))
    viols = []
    for r in results:
        if r["missing"]:
            c = r["case"]
            key = "lost:%s/%s" % (c["cfg"], c["sink"])
            what = "%s configuration, sink %s, %s thread, %d preceding messages of %d bytes: after the process died by qFatal the log files lack %s" % (
                c["cfg"], c["sink"], c["thread"], c["n"], c["size"], ", ".join(r["missing"]))
            viols.append({"key": key, "what": what, "replay": vlib.write_replay(PROP, "%s-%s-%s-%s-%d-%d" % (tier, c["cfg"], c["sink"], c["thread"], c["n"], c["size"]), {"case": c, "missing": r["missing"]})})
    rc, nbad = vlib.report(PROP, viols)
    multi = len([r for r in results if r["files"] > 1])
    cov = {
        "evaluations": len(results), "distinct_nontrivial": len(set((r["case"]["cfg"], r["case"]["sink"], r["case"]["thread"], r["case"]["n"] > 0, r["case"]["size"] > 16000) for r in results)),
        "rule": "full product {fluent, nested sub-pipeline, one-line configure(), INI} x {FileSink, RotatingFileSink with huge limit, with a 1-byte limit (the fatal record itself rotates), daily} x "
                "{main thread, secondary thread} x preceding message counts x payload sizes around QFile's 16 KiB write buffer; each case is one child process that logs through Qt's macros and ends in qFatal; "
                "required: the child died by SIGABRT and rotated files (in date/index order) + active file hold every message and the fatal one, in order, one line each; "
                "distinct_nontrivial = distinct (configuration, sink, thread, has-preceding, crosses-buffer) classes",
        "samples": [r["case"] for r in results[:3]] + [r["case"] for r in results[-2:]],
        "exhaustive": True, "children_killed_by_SIGABRT": len(results), "cases_with_rotated_files": multi,
        "bound_completed": "%d children" % len(results), "violations_total_incl_known": len(viols),
    }
    vlib.write_evidence(PROP, tier, "fault_enumeration", cov, t.s(), nbad,
                        ["the crash point is the abort() Qt performs right after the message handler returns for a fatal message; the enumerated dimension is the buffer fill state and the configuration",
                         "synchronous logger only (the property's scope)"])
    print("%s %s: children=%d violations=%d (unlisted %d) wall=%.1fs" % (PROP, tier, len(results), len(viols), nbad, t.s()))
    return rc


def replay(path):
    import json
    exe = build()
    c = json.load(open(path))["case"]
    root = tempfile.mkdtemp(prefix="verif-c11-", dir="/dev/shm")
    try:
        r = one(exe, root, (c["cfg"], c["sink"], c["thread"], c["n"], c["size"]))
    finally:
        shutil.rmtree(root, ignore_errors=True)
    print(json.dumps(r, indent=1))
    return 1 if r.get("missing") else 0
