"""C11: a fatal message and everything before it reach the log file (engine procx: enumerated child processes killed by qFatal)."""
import concurrent.futures, glob, os, re, shutil, subprocess, tempfile
import vlib

PROP = "C11"
CFGS = ["fluent", "nested", "oneline", "ini", "brokenfirst", "fullfirst", "twofiles", "stderrfirst", "filtered", "dupfatal"]
SLOW_CFG = "slowother"      # 1.7 s per child: run on a small set of histories only
SINKS = ["file", "rotbig", "rot1", "rot2", "rotdaily"]
THREADS = ["main", "sec"]
TYPES = ["debug", "warning", "info"]


def histories(tier):
    """record-length sequences; the last length is the fatal record's"""
    small = [8, 9, 10] if tier == "quick" else [8, 9, 10, 11, 12]
    maxn = 2 if tier == "quick" else 3
    out = set()
    cur = [()]
    for n in range(maxn + 1):                       # every sequence of n preceding small records x every small fatal record
        for pre in cur:
            for f in small:
                out.add(pre + (f,))
        cur = [p + (x,) for p in cur for x in small]
    big = [16383, 16385] if tier == "quick" else [4095, 16383, 16384, 16385, 40000]
    for b in big:                                   # around QFile's 16 KiB write buffer
        for n in ((0, 1, 3) if tier == "quick" else (0, 1, 2, 3, 5)):
            out.add((b,) * n + (b,))
            out.add((b,) * n + (8,))
            out.add((8,) * n + (b,))
    # empty message texts (length 0): an empty fatal message, alone and after empty / non-empty records; an empty record before a fatal one
    for h in [(0,), (8, 0), (0, 8), (0, 0), (8, 9, 0), (0, 0, 0), (8, 0, 9)] + ([(16385, 0), (0, 16385)] if tier != "quick" else []):
        out.add(h)
    return sorted(out, key=lambda h: (len(h), h))


def build():
    lib = vlib.build_lib("plain")
    return vlib.build_exe("c11child", [os.path.join(vlib.VERIF, "engine", "procx", "c11child.cpp")], "plain", lib)


def rot_key(name):
    m = re.match(r"app\.(\d{4}-\d{2}-\d{2})\.(\d+)\.log", name)
    return (m.group(1), int(m.group(2)))


def rec_text(i, ln, fatal):
    if ln == 0:
        return b""
    t = (b"FATAL" if fatal else b"r%d" % i) + b":"
    return t + b"x" * max(0, ln - len(t))


def read_all(d, base):
    rot = sorted([os.path.basename(p) for p in glob.glob(os.path.join(d, base + ".*.log"))], key=rot_key) if base == "app" else []
    text = b""
    for f in rot + [base + ".log"]:
        p = os.path.join(d, f)
        if os.path.exists(p):
            text += open(p, "rb").read()
    return text, len(rot) + 1


def one(exe, root, case):
    cfg, sink, thr, lens = case
    d = tempfile.mkdtemp(prefix="c11-", dir=root)
    try:
        r = subprocess.run([exe, d, cfg, sink, thr, ",".join(map(str, lens))], capture_output=True, timeout=60,
                           env=dict(os.environ, LC_ALL="C.UTF-8", TZ="UTC", QT_LOGGING_RULES="", QT_MESSAGE_PATTERN="", QT_FATAL_WARNINGS=""))
        res = {"case": {"cfg": cfg, "sink": sink, "thread": thr, "lens": list(lens)}, "rc": r.returncode}
        if r.returncode != -6:
            res["engine"] = "child did not die by SIGABRT (rc=%d) %s" % (r.returncode, r.stderr[-300:].decode("utf-8", "replace"))
            return res
        n = len(lens) - 1
        pre = [rec_text(i, lens[i], False) for i in range(n)]
        fatal = rec_text(0, lens[-1], True)
        res["missing"] = []
        res["files"] = 0
        res["bytes"] = 0
        bases = {"twofiles": ["app", "second"], "filtered": ["app", "trace"]}.get(cfg, ["app"])
        for base in bases:
            text, nfiles = read_all(d, base)
            # what this file must hold, in order; `exact` = the number of lines it must have (None: at least these)
            if base == "trace":
                expect, exact = pre, n                          # the filter keeps the fatal message out of this file, not the records before it
            elif cfg == "dupfatal":
                expect, exact = pre + [fatal], None             # the warning with the fatal text is there; the fatal line itself may be dropped as a duplicate
            elif cfg == SLOW_CFG:
                expect, exact = [b"slow:handler"] + pre + [fatal], n + 2
            else:
                expect, exact = pre + [fatal], n + 1
            pos, missing = 0, []
            for i, e in enumerate(expect):
                k = text.find(e + b"\n", pos) if cfg != "oneline" else text.find(e, pos)
                if k < 0:
                    missing.append(("the fatal message" if e == fatal else "message %r" % e[:12].decode()) + (" (in %s.log)" % base if base != "app" else ""))
                else:
                    pos = k + len(e)
            lines = text.count(b"\n")
            res["missing"] += missing
            res["files"] += nfiles
            res["bytes"] += len(text)
            if not missing and exact is not None and lines != exact:
                res["missing"].append("(line count %d != %d in %s.log: duplicated or split records)" % (lines, exact, base))
        return res
    finally:
        shutil.rmtree(d, ignore_errors=True)


def run(tier):
    t = vlib.Timer()
    exe = build()
    hs = histories(tier)
    cases = [(c, s, th, h) for c in CFGS for s in SINKS for th in THREADS for h in hs
             if not (len(h) > 1 and max(h) > 1000 and (c not in ("fluent", "oneline") or s in ("rot2", "rotdaily")))
             and not (0 in h and c in ("dupfatal", "filtered"))]   # an empty message equals the duplicate filter's initial text (dropping it is what C16 prescribes); the trace filter of `filtered` keys on the record text   # the big-record family on a reduced product
    cases += [(SLOW_CFG, s, th, h) for s in SINKS for th in THREADS for h in ((8,), (8, 9), (16385, 8))]
    root = tempfile.mkdtemp(prefix="verif-c11-", dir="/dev/shm")
    try:
        with concurrent.futures.ThreadPoolExecutor(max_workers=vlib.NCPU) as ex:
            results = list(ex.map(lambda c: one(exe, root, c), cases))
    finally:
        shutil.rmtree(root, ignore_errors=True)
    eng = [r for r in results if "engine" in r]
    if eng:
        raise vlib.EngineError(eng[0]["engine"] + " case=%r" % (eng[0]["case"],))
    viols = []
    for r in results:
        if r["missing"]:
            c = r["case"]
            key = "lost:%s/%s" % (c["cfg"], c["sink"])
            what = "%s configuration, sink %s, %s thread, record lengths %s (last = fatal): after the process died by qFatal the log files lack %s" % (
                c["cfg"], c["sink"], c["thread"], c["lens"], ", ".join(r["missing"]))
            if sum(1 for v in viols if v["key"] == key) < 3:
                viols.append({"key": key, "what": what, "replay": vlib.write_replay(PROP, "%s-%s-%s-%s-%s" % (tier, c["cfg"], c["sink"], c["thread"], "_".join(map(str, c["lens"]))), {"case": c, "missing": r["missing"]})})
            else:
                viols.append({"key": key, "what": what})
    rc, nbad = vlib.report(PROP, viols)
    multi = len([r for r in results if r["files"] > 1])
    cov = {
        "evaluations": len(results), "distinct_nontrivial": len(set((r["case"]["cfg"], r["case"]["sink"], r["case"]["thread"], len(r["case"]["lens"]) > 1, max(r["case"]["lens"]) > 16000) for r in results)),
        "rule": "full product {fluent, nested sub-pipeline, one-line configure(), INI, an earlier file sink that cannot open its file, an earlier file sink on /dev/full (every flush fails), two healthy file sinks, stderr sink first, a sub-pipeline with its own file behind a filter that rejects the fatal message, "
                "a duplicate filter with the fatal message repeating the previous text, another thread inside a 1.5 s handler when the fatal message is raised} x "
                "{FileSink, RotatingFileSink with huge limit, 1-byte limit (every record incl. the fatal one rotates), 40-byte limit (a few records per file), daily} x {main thread, secondary thread} x "
                "every sequence of 0..K preceding records with lengths from a contiguous small set x every fatal-record length from that set (so that record, file and fatal sizes coincide in every way), plus a "
                "family around QFile's 16 KiB write buffer; each case is one child process that logs through Qt's macros and ends in qFatal; "
                "required: the child died by SIGABRT and rotated files (in date/index order) + active file hold every message and the fatal one, in order, one line each; "
                "distinct_nontrivial = distinct (configuration, sink, thread, has-preceding, crosses-buffer) classes",
        "samples": [r["case"] for r in results[:3]] + [r["case"] for r in results[-2:]],
        "exhaustive": True, "children_killed_by_SIGABRT": len(results), "cases_with_rotated_files": multi,
        "bound_completed": "%d children" % len(results), "violations_total_incl_known": len(viols),
    }
    vlib.write_evidence(PROP, tier, "fault_enumeration", cov, t.s(), nbad,
                        ["the crash point is the abort() Qt performs right after the message handler returns for a fatal message; the enumerated dimension is the buffer fill state and the configuration",
                         "synchronous logger only (the property's scope)"])
    print("%s %s: children=%d violations=%d (unlisted %d) wall=%.1fs" % (PROP, tier, len(results), len(viols), nbad, t.s()))
    return rc


def replay(path):
    import json
    exe = build()
    c = json.load(open(path))["case"]
    root = tempfile.mkdtemp(prefix="verif-c11-", dir="/dev/shm")
    try:
        r = one(exe, root, (c["cfg"], c["sink"], c["thread"], tuple(c["lens"])))
    finally:
        shutil.rmtree(root, ignore_errors=True)
    print(json.dumps(r, indent=1))
    return 1 if r.get("missing") else 0
