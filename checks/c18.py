"""C18: Sentry events are valid Store-API payloads that carry the message faithfully (engine seqx/c13.cpp --mode sentry)."""
import c13

PROP = "C18"


def run(tier):
    return c13.run(tier, prop=PROP, mode="sentry")


def replay(path):
    return c13.replay(path)
