"""C06: retention bounds the count, removes only the oldest rotated files, never touches foreign files (engine vfs)."""
import vfsrun

PROP = "C06"


def run(tier):
    QUICK_CFGS = lambda: vfsrun.cfgs([5], [0, 1, 2, 3], [0, 2, 4, 7]) + vfsrun.cfgs([1], [2, 3], [0, 6]) + vfsrun.cfgs([5], [2, 3], [0, 6], shapes=(1, 2)) + vfsrun.cfgs([0], [2], [3]) + vfsrun.cfgs([5], [3], [0, 4], shapes=(5,))
    extra = []
    if tier == "quick":
        cfgs = QUICK_CFGS()
        depth = 4
        longs, writes = vfsrun.cfgs([1], [3, 4], [0, 4], ticks=(0, 1)) + vfsrun.cfgs([1], [3], [0], shapes=(1, 2)), (12,)
    else:
        cfgs = vfsrun.cfgs([1, 5], [-1, 0, 1, 2, 3, 4], range(8)) + vfsrun.cfgs([5], [2, 3], range(8), shapes=(1, 2)) + vfsrun.cfgs([0], [2, 3], [1, 2, 3, 7])
        depth = 4
        extra = [(QUICK_CFGS(), 5)]      # depth 5 on the quick configuration set, depth 4 on the full set: sized to finish (see vfsrun.DEADLINE)
        longs, writes = vfsrun.cfgs([1], [0, 2, 3, 5, 12], [0, 2, 4], ticks=(0, 1)) + vfsrun.cfgs([1], [3], [0, 4], shapes=(1, 2)), (12, 102)
    deep = (vfsrun.cfgs([5], [2, 3], [0, 2, 3, 4, 7]) + vfsrun.cfgs([1], [3], [0, 2]), 6) if tier == 'quick' else (cfgs, 7)
    reconf = (vfsrun.cfgs([5], [2, 3], [0, 2, 4, 6]) + vfsrun.cfgs([1], [3], [0, 4]), 5) if tier == 'quick' else (vfsrun.cfgs([1, 5], [2, 3, 4], [0, 2, 4, 6]), 7)
    return vfsrun.hist_check(
        PROP, tier, cfgs, depth, extra_groups=extra,
        rule="every operation history up to the depth bound for file-count limits N in {<=0, 1, 2, 3, ..} with all file timestamps tied (virtual clock does not advance "
             "between operations) or 1 ms apart, plus straight-line histories of 12 (and 102) consecutive rotations crossing index 9->10 (99->100), with look-alike foreign "
             "files in the directory (dated 2000-01-01, i.e. 'oldest'); after every operation: active+rotated <= N, the surviving rotated files are the most recent ones "
             "(contiguous stretch), nothing disappears for N<=0, nothing rotates for N=1, foreign files byte-identical; every unlink is checked at the system call "
             "(scheme name, more than N-1 rotated files present, no older rotated file left)",
        deep=deep, reconf=reconf, crash=(vfsrun.cfgs([5], [2, 3], [4, 6]) + vfsrun.cfgs([1], [3], [4]), 1 if tier == 'quick' else 2), assumptions=vfsrun.COMMON_ASSUMPTIONS,
        long_cfgs=longs, long_writes=writes)


def replay(path):
    return vfsrun.replay(PROP, path)
