"""C15: category rules decide exactly as ordered Qt-style rules prescribe (engine seqx/c15.cpp)."""
import json
import vlib
import seqxrun

PROP = "C15"
B = {"quick": dict(depth=2, small=3), "thorough": dict(depth=2, small=4)}
NSH = {"quick": 16, "thorough": 64}


def run(tier):
    t = vlib.Timer()
    exe = seqxrun.build("c15", ["c15.cpp"])
    b = B[tier]
    n = NSH[tier]
    args = [["--depth", b["depth"], "--small-depth", b["small"], "--shard", i, "--nshards", n] for i in range(n)]
    parts = seqxrun.run_shards(exe, args, timeout=6000)
    fails = [p for p in parts if "_crash" in p or "_timeout" in p]
    tot = seqxrun.merge([p for p in parts if p not in fails])
    dis = tot["counters"].get("qt_second_opinion_disagrees_with_reference", 0)
    if dis and not fails:
        raise vlib.EngineError("the reference disagrees with QLoggingCategory on %d cases inside Qt's own sub-language: %s" % (dis, json.dumps(tot["samples"])[:800]))
    if not fails and (tot["counters"].get("pass", 0) == 0 or tot["counters"].get("drop", 0) == 0):
        raise vlib.EngineError("vacuous: only one verdict ever observed")
    return seqxrun.finish(
        PROP, tier, "exploration", tot, t,
        rule="every rule list up to the length bound over an alphabet of rule lines = {23 category patterns: plain, dotted, * at start / end / middle / both, regex metacharacters + ( ) | . [ ] ? ^ $ \\ { }, "
             "patterns that look like a type suffix} x {no suffix, .debug, .info, .warning, .critical, .fatal, .Debug} x {true, false} + whitespace variants + 15 malformed lines; longer lists over a "
             "24-line sub-alphabet; each list joined by newline / ';' / alternating / with empty lines and trailing separators; probed with 28 categories (incl. empty, null, metacharacter names, "
             "names equal to a pattern text) x 5 types on the real CategoryFilter; oracle: independent parser + iterative glob matcher (no regular expressions): last matching well-formed rule decides, "
             "default pass, typed rules only for their type (never fatal), malformed lines ignored. Second opinion: QLoggingCategory with the same rules wherever Qt supports them; a disagreement "
             "between Qt and the reference is an engine error. evaluations = (rule list, category, type) verdicts; states = rule texts",
        assumptions=["category names and rule lines over printable ASCII; lines with several '=' or upper-case TRUE/FALSE are left out (Qt and the statement disagree on whether they are well formed)",
                     "docs/api/filters.md says 'network.*' matches 'network'; the property text and Qt say it does not; the property text is followed"],
        engine_failures=fails)


def replay(path):
    exe = seqxrun.build("c15", ["c15.cpp"])
    case = json.load(open(path))["case"]
    res = seqxrun.run_one(exe, ["--rules", case["rules"]], timeout=60)
    print(json.dumps(res, indent=1)[:3000])
    return 1 if res.get("violation_count") else 0
