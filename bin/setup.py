#!/usr/bin/env python3
"""setup_cmd: offline warm-up build of the library flavours from /repo's working tree (checks rebuild anyway)."""
import os, sys
sys.path.insert(0, os.path.dirname(os.path.abspath(__file__)))
import vlib
for fl in ("asan", "plain"):
    objs = vlib.build_lib(fl)
    print("built", fl, len(objs), "objects")
