#!/usr/bin/env python3
"""seed_prompt.py <Cxx> [n]: prints the prompt given to an independent sub-agent that has to produce property-breaking
changes. The agent gets only the property text and a scratch worktree; nothing from /verif."""
import json, sys
pid = sys.argv[1]
n = int(sys.argv[2]) if len(sys.argv) > 2 else 2
p = [json.loads(l) for l in open("/verif/properties.jsonl") if json.loads(l)["id"] == pid][0]
print(f"""You are testing how robust a C++/Qt5 logging library's guarantees are against realistic regressions.

Working copy (yours alone, a git worktree of the library): /tmp/seed-{pid}   — sources under src/qtlogger, tests under tests/, the amalgamated single header qtlogger.h at top level (do NOT bother regenerating it).
Output directory: /tmp/seed-{pid}-out
Do not read or write anything under /verif or /repo; work only inside /tmp/seed-{pid} and /tmp/seed-{pid}-out. No network is available. Qt 5.15 (pkg-config Qt5Core), g++ 12, cmake+ninja are installed.

PROPERTY {pid}: {p['title']}
{p['statement']}
(Quantified over: {p['quantifier']['text']})

TASK: produce {n} different, independent changes to the library source (each a small realistic edit a developer could plausibly make: a refactoring, an "optimisation", a reordered statement, an off-by-one, a changed condition, a cache/member introduced, a cursor advanced too early ...) such that EACH change
  (a) compiles, and the library's whole existing test suite still passes with it:
        cmake -G Ninja -S /tmp/seed-{pid} -B /tmp/seed-{pid}/_build && cmake --build /tmp/seed-{pid}/_build -j4 -- -k 0 ; ctest --test-dir /tmp/seed-{pid}/_build -j4 --timeout 900
      (examples/sentry_example may fail to link on the pristine tree too — ignore that; all 18 ctest tests must pass);
  (b) breaks the property above; and
  (c) needs something SPECIFIC to manifest — a particular sequence of several operations, an unusual input, a crash or injected failure at a particular point, a particular interleaving, or two cooperating edits that each look fine alone. Changes that ordinary use or the first log message would expose at once are NOT wanted. Prefer subtle ones.
The {n} changes should differ in mechanism (do not submit variations of one idea).

For each change i = 1..{n} write into /tmp/seed-{pid}-out/<i>/ :
  patch.diff   — `git diff` of the change relative to the pristine worktree HEAD (src/ only; must apply with `git apply` to a clean checkout)
  demo/run.sh  — usage: run.sh <source-tree>. Builds a small demonstration program (put its sources in demo/) against <source-tree>/src/qtlogger (compile the needed library .cpp files directly with g++ and pkg-config Qt5Core, like: g++ -std=c++17 -fPIC -O1 -I"$TREE/src" -I"$TREE/src/qtlogger" demo.cpp $TREE/src/qtlogger/...cpp $(pkg-config --cflags --libs Qt5Core); run moc yourself if you need signalsink) and runs it. Exit status 0 = the property holds, non-zero = violated. It must exit 0 on the pristine tree and non-zero on the tree with patch.diff applied, deterministically, within 2 minutes, using only temporary directories it creates and removes itself.
  meta.json    — {{"property": "{pid}", "summary": "<what the change does and why it breaks the property>", "needs_to_manifest": "<the specific sequence / input / crash point / interleaving needed>", "files_touched": [...], "commands_run": [...], "existing_tests": "<n/n passed>", "demo_with_patch": "<result>", "demo_pristine": "<result>"}}

Verify everything yourself before finishing: with the patch applied the full test suite passes and the demo fails; with `git -C /tmp/seed-{pid} checkout -- .` (pristine) the demo passes. Leave the worktree pristine (git checkout -- . ; you may leave _build). If, after honest effort, you cannot find a change of the requested kind for this property, write fewer and say so. Report briefly what you produced.""")
