#!/usr/bin/env python3
"""seed_run.py <seed-id> [<prop> ...] [--tier quick]: apply /verif/seeded/<seed-id>/patch.diff to /repo, run the
given checks (default: the seed's own property), undo the patch straight afterwards. Records the outcome in
/verif/seeded/RESULTS.json. /repo must be clean; nothing is ever committed there."""
import json, os, subprocess, sys, time
args = [a for a in sys.argv[1:] if not a.startswith("--")]
tier = "quick"
if "--tier" in sys.argv: tier = sys.argv[sys.argv.index("--tier") + 1]; args = [a for a in args if a != tier]
sid = args[0]
d = "/verif/seeded/" + sid
props = args[1:] or [json.load(open(d + "/meta.json"))["property"]]
st = subprocess.run("git -C /repo status --porcelain -- src qtlogger.h tests tools", shell=True, capture_output=True, text=True).stdout.strip()
if st:
    print("refusing: /repo has uncommitted changes:\n" + st); sys.exit(2)
res = {}
try:
    r = subprocess.run("git -C /repo apply %s/patch.diff" % d, shell=True, capture_output=True, text=True)
    if r.returncode:
        print("patch does not apply:", r.stderr); sys.exit(2)
    for p in props:
        t0 = time.time()
        r = subprocess.run(["python3", "/verif/bin/check.py", p, "--tier", tier], capture_output=True, text=True, cwd="/verif", timeout=2400)
        lines = [l for l in r.stdout.splitlines() if l.startswith(("VIOLATION", "KNOWN-FINDING", "ENGINE-ERROR", "  what"))][:4]
        res[p] = {"exit": r.returncode, "detected": r.returncode == 1, "wall_s": round(time.time() - t0, 1), "first_lines": lines, "tier": tier}
        print(sid, p, "exit", r.returncode, "DETECTED" if r.returncode == 1 else "MISSED" if r.returncode == 0 else "ENGINE-ERROR")
        for l in lines: print("   ", l[:300])
        if r.returncode not in (0, 1): print(r.stdout[-1500:], r.stderr[-1500:])
finally:
    # undo: tracked files back to HEAD, and files the patch ADDED removed again (only under the source directories; _build is left alone)
    subprocess.run("git -C /repo checkout -- . && git -C /repo clean -fdq -- src tools tests qtlogger.h", shell=True)
rf = "/verif/seeded/RESULTS.json"
allr = json.load(open(rf)) if os.path.exists(rf) else {}
allr.setdefault(sid, {}).update(res)
json.dump(allr, open(rf, "w"), indent=1, sort_keys=True)
