#!/usr/bin/env python3
"""seed_all.py: the authoritative pass - every seeded change is applied to /repo, its own property's quick check is run, the patch is
undone (bin/seed_run.py). Sequential: /repo is modified while a seed is being tried, nothing else may run checks meanwhile."""
import glob, json, os, subprocess, sys
seeds = sorted(os.path.basename(os.path.dirname(p)) for p in glob.glob("/verif/seeded/C*/meta.json"))
only = sys.argv[1:]
for s in seeds:
    if only and s not in only and s.split("-")[0] not in only:
        continue
    r = subprocess.run(["python3", "/verif/bin/seed_run.py", s], capture_output=True, text=True)
    print(r.stdout.strip()[:600], flush=True)
    if r.returncode not in (0,):
        print("  seed_run rc", r.returncode, r.stderr[-300:], flush=True)
st = subprocess.run("git -C /repo status --porcelain -- src qtlogger.h tests tools", shell=True, capture_output=True, text=True).stdout.strip()
print("repo clean" if not st else "REPO NOT CLEAN:\n" + st)
