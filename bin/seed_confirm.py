#!/usr/bin/env python3
"""seed_confirm.py <agent-out-dir> <seed-id>: independently confirm a seeded change in a scratch worktree
(outside /repo and /verif): demo passes on the pristine tree; with the patch the tree builds, the whole
existing test suite passes and the demo fails. On success copies it to /verif/seeded/<seed-id>/."""
import json, os, shutil, subprocess, sys, time
out, sid = sys.argv[1], sys.argv[2]
wt = "/tmp/confirm-" + sid
log = []
def sh(cmd, timeout=1800):
    r = subprocess.run(cmd, shell=True, capture_output=True, text=True, timeout=timeout)
    log.append({"cmd": cmd, "rc": r.returncode, "tail": (r.stdout + r.stderr)[-400:]})
    return r
subprocess.run("git -C /repo worktree remove --force %s 2>/dev/null; rm -rf %s" % (wt, wt), shell=True)
try:
    assert sh("git -C /repo worktree add --detach %s HEAD" % wt).returncode == 0
    r0 = sh("bash %s/demo/run.sh %s" % (out, wt), 900)
    pristine_ok = r0.returncode == 0
    ra = sh("git -C %s apply %s/patch.diff" % (wt, out))
    applied = ra.returncode == 0
    sh("cmake -G Ninja -S %s -B %s/_build" % (wt, wt))
    sh("cmake --build %s/_build -j8 -- -k 0" % wt)
    rt = sh("ctest --test-dir %s/_build -j8 --timeout 900" % wt)
    tests_ok = rt.returncode == 0 and "100% tests passed" in rt.stdout
    for _ in range(2):
        # the suite has timing-based thread tests that fail on a heavily loaded machine (seen on the pristine tree too): a failure is
        # re-run serially before it is held against the patch
        if tests_ok: break
        rt = sh("ctest --test-dir %s/_build -j1 --timeout 900" % wt)
        tests_ok = rt.returncode == 0 and "100% tests passed" in rt.stdout
    r1 = sh("bash %s/demo/run.sh %s" % (out, wt), 900)
    demo_fails = r1.returncode != 0
    ok = pristine_ok and applied and tests_ok and demo_fails
    res = {"pristine_demo_passes": pristine_ok, "patch_applies_to_HEAD": applied, "existing_tests_pass_with_patch": tests_ok,
           "demo_fails_with_patch": demo_fails, "repo_head": subprocess.run("git -C /repo rev-parse --short HEAD", shell=True, capture_output=True, text=True).stdout.strip(),
           "confirmed": ok, "when": time.strftime("%Y-%m-%d %H:%M"), "log": log}
    if ok:
        dst = "/verif/seeded/" + sid
        shutil.rmtree(dst, ignore_errors=True)
        shutil.copytree(out, dst, ignore=shutil.ignore_patterns("build", "_build", "*.o", "demo_bin", "*.exe"))
        meta = json.load(open(os.path.join(out, "meta.json")))
        meta["confirmation"] = res
        json.dump(meta, open(os.path.join(dst, "meta.json"), "w"), indent=1)
    print(sid, "CONFIRMED" if ok else "REJECTED", {k: v for k, v in res.items() if k != "log"})
    if not ok:
        json.dump(res, open("/tmp/confirm-%s.json" % sid, "w"), indent=1)
finally:
    subprocess.run("git -C /repo worktree remove --force %s 2>/dev/null; rm -rf %s" % (wt, wt), shell=True)
