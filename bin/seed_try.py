#!/usr/bin/env python3
"""seed_try.py <seed-id> [<prop> ...] [--tier quick]: like seed_run.py but WITHOUT touching /repo: the seeded patch is applied
to a scratch worktree under /tmp and the checks are pointed at it with VERIF_REPO (separate build/evidence/replay
directories, see vlib.OUT). Used while other work is going on in /repo; results go to seeded/RESULTS.json under the
key 'try'. The authoritative procedure (apply to /repo, run, undo) is seed_run.py."""
import json, os, shutil, subprocess, sys, time, hashlib
args = [a for a in sys.argv[1:] if not a.startswith("--")]
tier = "quick"
if "--tier" in sys.argv: tier = sys.argv[sys.argv.index("--tier") + 1]; args = [a for a in args if a != tier]
sid = args[0]
d = "/verif/seeded/" + sid
props = args[1:] or [json.load(open(d + "/meta.json"))["property"]]
wt = "/tmp/try-" + sid
subprocess.run("git -C /repo worktree remove --force %s 2>/dev/null; rm -rf %s" % (wt, wt), shell=True)
res = {}
try:
    assert subprocess.run("git -C /repo worktree add --detach %s HEAD" % wt, shell=True, capture_output=True).returncode == 0
    r = subprocess.run("git -C %s apply %s/patch.diff" % (wt, d), shell=True, capture_output=True, text=True)
    if r.returncode:
        print("patch does not apply:", r.stderr); sys.exit(2)
    env = dict(os.environ); env["VERIF_REPO"] = wt
    for p in props:
        t0 = time.time()
        r = subprocess.run(["python3", "/verif/bin/check.py", p, "--tier", tier], capture_output=True, text=True, cwd="/verif", env=env, timeout=2400)
        lines = [l for l in r.stdout.splitlines() if l.startswith(("VIOLATION", "KNOWN-FINDING", "ENGINE-ERROR", "  what"))][:4]
        res[p] = {"exit": r.returncode, "detected": r.returncode == 1, "wall_s": round(time.time() - t0, 1), "first_lines": lines, "tier": tier, "via": "scratch worktree (VERIF_REPO)"}
        print(sid, p, "exit", r.returncode, "DETECTED" if r.returncode == 1 else "MISSED" if r.returncode == 0 else "ENGINE-ERROR")
        for l in lines: print("   ", l[:300])
        if r.returncode not in (0, 1): print(r.stdout[-1500:], r.stderr[-1500:])
finally:
    subprocess.run("git -C /repo worktree remove --force %s 2>/dev/null; rm -rf %s" % (wt, wt), shell=True)
    alt = "/verif/build/alt-" + hashlib.sha256(os.path.realpath(wt).encode()).hexdigest()[:10]
    shutil.rmtree(alt, ignore_errors=True)
rf = "/verif/seeded/RESULTS.json"
allr = json.load(open(rf)) if os.path.exists(rf) else {}
for p, v in res.items():
    allr.setdefault(sid, {}).setdefault(p, v)   # never overwrites a result obtained on /repo itself
    if allr[sid][p].get("via"): allr[sid][p] = v
json.dump(allr, open(rf, "w"), indent=1, sort_keys=True)
