#!/usr/bin/env python3
"""Generates /verif/MANIFEST.json from the table below (single source of truth for what is claimed)."""
import json, os
V = os.path.dirname(os.path.dirname(os.path.abspath(__file__)))

MC, EX, FE = "model_checking", "exploration", "fault_enumeration"

CHECKS = {
 "C17": dict(engine="seqx", level=MC, design="§7 C17",
   technique="explicit-state BFS over call sequences on the real SortedPipeline with canonical-state dedup, reference model oracle",
   text="Every (state, call) transition of the sorted pipeline reachable within the depth bound (20 calls: typed inserts, clears, null arguments, re-setting the installed formatter, re-registering an already registered attribute handler / filter / sink object) is executed on the real class and compared with a stable-sort reference model and with the execution order seen by recording handlers; exhaustive within the bound; beyond it only a straight-line family of pipelines with 17-40 handlers (checked after every insertion).",
   note="Trusted: the canonical form (class + rank list from handlers()) is the complete state; g++/libstdc++ as installed; ASan/UBSan for iterator misuse."),
}

CHECKS.update({
 "C01": dict(engine="seqx", level=MC, design="§7 C01",
   technique="bounded-exhaustive enumeration of pipeline trees and fluent-builder call sequences on the real Pipeline/SimplePipeline, reference interpreter oracle",
   text="Every pipeline tree up to the node/depth bound over a 13-kind handler alphabet (and every fluent builder call sequence up to the call bound) is evaluated on a 2-message sequence by the real classes and by an explicit-state reference interpreter; every delivery (sink, formatted text, attributes, raw message) must agree. Exhaustive within the bound. A third space changes LIVE trees between messages (append / remove / clear at every node of every tree up to a smaller bound): each message must be evaluated in order on the tree as it is then.",
   note="Trusted: the reference interpreter (written from the property text); formatters returning a null QString are outside the alphabet; g++/ASan/UBSan."),
 "C16": dict(engine="seqx", level=MC, design="§7 C16",
   technique="explicit-state BFS over message sequences on the real filters/counter (canonical state by probing copies), reference automata; enumerated regex x text space against Python re",
   text="All message sequences up to the depth bound over 7 texts x 5 types are fed to the real LevelFilter (25 threshold x type pairs), a DuplicateFilter and a SeqNumberAttr shared by two pipelines; verdicts and numbers must equal reference automata on every transition; RegExpFilter verdicts for every enumerated expression x text are compared with Python re. Expressions handed over as QRegularExpression objects are enumerated with 11 pattern-option sets (oracle: that object applied to the text); runs of 2^8, 2^16, 2^17 (+-2) identical messages go through one duplicate filter and one counter.",
   note="Trusted: PCRE and Python re agree on the enumerated grammar (expressions rejected by either are excluded and counted); null and empty QString are the same text."),
})

VFS_NOTE = "Trusted: the interposer sees every file-system call Qt makes (vacuity counters: rotations, removals, gzip files decoded); virtual clock/mtime model (ms granularity, set at create/write, preserved by rename); zlib as the independent gzip decoder; TZ=UTC."
CHECKS.update({
 "C05": dict(engine="vfs", level=MC, design="§5, §7 C05",
   technique="exhaustive enumeration of operation histories (write kinds, day changes, restarts) on the real RotatingFileSink over interposed libc with virtual clock; byte-stream reference oracle after every operation",
   text="Every operation history up to the depth bound, for every enumerated (size limit, count limit, option set, file-name shape), is executed on the real sink; after every operation the directory is read back (gzip decoded independently) and must continue the written byte stream exactly: no record lost, duplicated, reordered or split; files vanish only under retention. Restarts that switch compression or rotation-on-startup (an edited configuration; compressed and plain rotated files mixed) and a hidden log file name (.app.log) are part of the space.",
   note=VFS_NOTE),
 "C06": dict(engine="vfs", level=MC, design="§5, §7 C06",
   technique="exhaustive history enumeration + straight-line index-crossing histories under tied/untied virtual timestamps on the real sink; per-unlink system-call monitor and survivor-contiguity oracle",
   text="Every history up to the depth bound for N in {<=0,1,2,3,..}, plus 12/102 consecutive rotations crossing index 9->10 and 99->100 under tied and 1 ms timestamps, with look-alike foreign files present: after every operation at most N files, survivors are the most recent contiguous stretch, nothing deleted for N<=0, nothing rotated for N=1, foreign files byte-identical; every unlink is checked when it is issued. Histories with option-switching restarts; after every crash point of a rotating write a restarted sink must be back within the limit, counting files, once it has rotated twice.",
   note=VFS_NOTE),
 "C07": dict(engine="vfs", level=MC, design="§5, §7 C07",
   technique="exhaustive history enumeration over record sizes straddling the limit (L-1..L+2, 1, multi-byte, embedded LF) on the real sink; per-file size/record-count oracle",
   text="Every history up to the depth bound over records sized around each limit L (incl. multi-byte UTF-8 and embedded line feeds), with daily/startup rotation, compression and restarts: every file the sink wrote is located in the written stream and is <= L bytes or holds exactly one record; no record spans two files.",
   note=VFS_NOTE),
 "C09": dict(engine="vfs", level=MC, design="§5, §7 C09",
   technique="exhaustive history enumeration with day jumps, restarts with stale virtual mtimes and retention on the real sink; per-file day/name oracle and rename-target monitor",
   text="Every history up to the depth bound mixing writes, day jumps, size rotations, restarts and retention removals with daily rotation: each file holds records of one day, rotated names carry that day; rename targets never exist and were never used before; indices per date strictly increase.",
   note=VFS_NOTE),
})

CHECKS.update({
 "C08": dict(engine="vfs", level=EX, design="§7 C08",
   technique="exhaustive enumeration of a finite content/size family and of all histories/crash points on the real compressing sink; zlib + Python gzip as independent decoders",
   text="A finite family (boundary sizes x content generators, all records <= 2 symbols over a 12-symbol alphabet) plus every .gz met in the bounded history exploration and at every crash point inside compression is decoded by two independent gzip implementations; header, CRC-32, ISIZE, payload and 'original removed only after the .gz is complete' are checked. A read-back failure of the rotated file (open for reading fails) is a fault point too: whatever .gz a completed operation leaves behind must be a complete valid stream. Says nothing about contents outside the family.",
   note=VFS_NOTE),
 "C10": dict(engine="vfs", level=FE, design="§5.3, §7 C10",
   technique="exhaustive crash-point and single-fault enumeration: one forked execution of the real sink per mutating system call of every rotating write (interposed libc), oracle evaluated at the crash instant, followed by restarts under a destructive-call monitor",
   text="For every configuration and bounded prefix history, every mutating system call of a rotating write is a crash point and every rename/link/unlink/.gz-create a single-failure point; read-only opens of existing files (the compression step reading the rotated file back) are single-failure points as well; at each, every byte that had reached a log file must be in an intact file, and a restarted sink (same day, then next day) may only delete by retention, never truncate or reuse a name.",
   note=VFS_NOTE + " Process death only (no power-loss model); single faults; Qt's internal copy+remove fallback of QFile::rename accepted."),
})

CHECKS.update({
 "C11": dict(engine="procx", level=FE, design="§6, §7 C11",
   technique="exhaustive enumeration of a finite product of child processes (configuration front-end x sink kind x thread x backlog x payload size around the stream buffer), each killed by qFatal's abort; file contents compared with the logged sequence",
   text="Every combination of configuration front-end, file sink kind, logging thread, number of preceding messages and payload size around QFile's 16 KiB buffer is run as a real child process that ends in qFatal; the child must die by SIGABRT and the log files must hold every message and the fatal one, in order. Empty message texts (an empty fatal message; empty records before it) are part of the length histories.",
   note="Trusted: the crash point is Qt's abort() right after the handler returns; synchronous logger only; real QFile buffering of the installed Qt."),
})

VS_NOTE = "Trusted: the vqt model of Qt's threading semantics (rules R1-R11, engine/vsched/vqt.cpp; R1-R10 re-checked on the installed Qt by engine/procx/qtconf.cpp in every run); sequential consistency at the hooked operations; the time model for timeouts (DESIGN.md 13.7); retargeting by macro leaves the library source unchanged (ownthreadhandler.h, logger.cpp, configure.cpp compiled against vqt). Unsynchronised accesses between two schedule points are covered by the race pass (ThreadSanitizer under the same scheduler, DESIGN.md 13.6)."
CHECKS.update({
 "C02": dict(engine="vsched", level=MC, design="§3, §7 C02",
   technique="stateless preemption-bounded schedule exploration (CHESS-style iterative context bounding, one forked execution per schedule) of the real Logger / OwnThreadHandler code under a serialising scheduler; every schedule of a second, ThreadSanitizer-instrumented exploration is race-checked (scheduler hand-offs invisible to the detector, happens-before edges announced by the Qt model)",
   text="Every interleaving up to the deviation bound of 2-4 producers logging through the real Logger (incl. a fatal message, whose sink flush must not overlap a send) and through a bare synchronous OwnThreadHandler<Pipeline> with yielding handlers is executed; on each: in-flight <= 1, exactly-once per qualifying sink, per-producer order, consecutive sequence numbers, no deadlock. Synchronous mode reached from an asynchronous phase is covered by operation histories (move, log with messages left queued, stop) with a second thread logging from every position. A race pass reports unsynchronised library accesses on every explored schedule.",
   note=VS_NOTE),
 "C03": dict(engine="vsched", level=MC, design="§3, §7 C03",
   technique="stateless preemption-bounded schedule exploration of producers + worker thread over the real asynchronous hand-off (bare handler and Logger, all five message types), field-by-field content oracle with reused/poisoned caller buffers, real-time FIFO oracle, operation histories with racing producers and a sink that logs itself; ThreadSanitizer race pass under the same scheduler",
   text="Every interleaving up to the deviation bound of producers and the worker of a handler moved to its own thread: every accessor of every delivered message equals the original although the caller's buffers are poisoned and freed, exactly once, per-producer FIFO, real-time order, all sinks on the worker thread, worker never holds the handler mutex inside a sink.",
   note=VS_NOTE),
 "C04": dict(engine="vsched", level=MC, design="§3, §7 C04",
   technique="stateless preemption-bounded schedule exploration of (a) every shutdown path x backlog x racing producer x dispatcher variant and (b) EVERY operation history up to a length bound over {create/destroy application object, move, log, reset, quit+exec, nested loop} with a racing producer from every position, over the real stop/drain code; deadlock and progress-based livelock detection; paths and histories re-run on the real Qt; ThreadSanitizer race pass under the same scheduler",
   text="Every interleaving up to the deviation bound for the five shutdown paths (aboutToQuit, explicit reset, destructor with/without a live application object, with/without exec()), backlogs 0-3, optional racing producer and second move/reset cycle, and for every well-formed lifecycle history up to the length bound: every stop returns, everything accepted before it is delivered, the logger thread is gone afterwards, nothing lost or duplicated, messages logged without a logger thread are handled synchronously, no destroyed worker touched; paths and short histories confirmed on the real Qt.",
   note=VS_NOTE + " Racing producers only on paths 1-2."),
})

CHECKS.update({
 "C12": dict(engine="seqx", level=EX, design="§7 C12",
   technique="bounded-exhaustive enumeration of token sequences x adversarial values x types on the real PatternFormatter against an independent reference of the documented mini-language (accept-sets where the documentation is silent)",
   text="Every pattern up to the token bound over an alphabet covering every documented construct is formatted for every value of an adversarial list (as message and attribute value) and every type; the output must be in the accept-set computed by an independent reference written from the documentation on UTF-16 code units. Exhaustive within the bound; constructs the documentation leaves open are excluded and counted. The format-spec grammar [fill][align]width[!] is also enumerated as a product (fills include the alignment characters themselves), and consecutive messages hand their function/file/category strings over in reused caller buffers.",
   note="Trusted: the reference (engine/seqx/c12.cpp, from docs/api/formatters.md and the property text); printable-ASCII category/file/function."),
})

CHECKS.update({
 "C13": dict(engine="seqx", level=EX, design="§7 C13",
   technique="bounded-exhaustive enumeration of inputs (all strings up to the length bound over a 46-symbol adversarial Unicode alphabet in message / attribute-value / attribute-name position, typed values, source-location strings) on the real JsonFormatter; Python json as independent parser, field-by-field oracle",
   text="Every string up to the length bound over 46 code points (all C0 controls, quote, backslash, DEL, C1, U+2028/9, non-characters, astral) is fed as message text, as string attribute value and as attribute name, together with a typed-value family (integers to +-2^53, doubles, bools, nested lists/maps) alone and in all ordered pairs and null/empty/printable source-location strings, through compact and indented mode; each output must parse as exactly one JSON object without duplicate keys, carry exactly the built-in + custom keys, return every value unchanged, and (compact) contain no LF/CR. Formatters are also obtained the way applications do (SimplePipeline::formatToJson(true/false), JsonFormatter::instance()) in all six orders of first use per process; every message is formatted later (2.5 s / a minute / a day on the virtual clock) than it was created. Says nothing about strings beyond the bound or symbols outside the alphabet.",
   note="Trusted: Python's json module as the judge; the expectation is written by a 10-line ASCII-only JSON writer in the harness from the inputs; TZ=UTC."),
 "C18": dict(engine="seqx", level=EX, design="§7 C18",
   technique="bounded-exhaustive enumeration of inputs (message strings over the adversarial alphabet, category/type/function/file products, all 256 subsets of the routed attribute names, the 100-code-unit cut family, clock boundary family under four time zones, identical-message bursts) on the real SentryFormatter with a virtual clock; Python json oracle, event-id uniqueness over the whole run and across processes",
   text="Every enumerated message is formatted by the real SentryFormatter under an interposed clock; each event must be one valid JSON object (no duplicate keys, no lone surrogates), with a 32-hex event id never seen before in the run or in another process, timestamp = message time in UTC to the second, mapped level, message.formatted = text, logger only for non-default categories, fingerprint [level, category|default, first 100 characters], and every custom attribute exactly once in its documented slot or under extra with its value intact. Every event is formatted later than its message was created (virtual clock advanced across second, minute and day boundaries), so the timestamp obligation distinguishes message time from formatting time.",
   note="Trusted: Python's json module; slot table from docs/api/formatters.md; accept-set for the cut at a surrogate pair (99 units / U+FFFD / 100 code points / pair kept whole), never a lone surrogate."),
})

CHECKS.update({
 "C15": dict(engine="seqx", level=EX, design="§7 C15",
   technique="bounded-exhaustive enumeration of rule lists (all sequences up to the length bound over an alphabet of well-formed, typed, wildcard, metacharacter and malformed rule lines, all separator styles) x categories x types on the real CategoryFilter; independent glob-based reference, QLoggingCategory as second opinion",
   text="Every rule list up to the bound over ~340 rule lines (and longer lists over a 24-line sub-alphabet) is given to the real CategoryFilter and probed with 28 categories x 5 types; every verdict must equal ordered evaluation by an independent parser and glob matcher: last matching well-formed rule decides, default pass, typed rules apply to their type only, malformed lines are ignored, ';' and newline separate. Wherever Qt's own QLoggingCategory supports the rules it must agree with the reference. A second sweep per rule list feeds consecutive same-type messages whose category names arrive in one reused caller buffer.",
   note="Trusted: the reference (engine/seqx/c15.cpp, from the property text); printable-ASCII categories; lines with several '=' or upper-case booleans left out."),
})

CHECKS.update({
 "C14": dict(engine="seqx", level=EX, design="§7 C14",
   technique="bounded-exhaustive enumeration of token strings over four syntax alphabets (signatures, patterns, category rules, messages) plus a finite long-input family on the real formatters and filters in an ASan+UBSan build with Qt assertions on and a per-case watchdog; crash/hang attributed to one case through a shared marker",
   text="Every token string up to the bound over alphabets built from the syntax the parsers look for (brackets, ::, operator, lambda, (*, )(, %, {, }, :, ?, digits, if-/endif, rule separators and regex metacharacters, control/astral/combining characters) and a long family (every token, ordered token pair and a^n b^n repeated to the size cap) is pushed through %{func}/%{function}/%{shortfile}, pattern construction + formatting, CategoryFilter, a menu of 12 regular expressions, Pretty/JSON/Sentry formatters; no sanitizer report, no assertion, no signal, every case within its time budget. Pretty formatters with wide category limits (64, 4096) see the case text as category followed by short categories (column state kept between messages); pattern tokens include widths beyond 2^32 and 2^64. Exhaustive to the token bound only.",
   note="Trusted: AddressSanitizer/UBSan and Qt's own Q_ASSERTs (the library is compiled without QT_NO_DEBUG) as the oracle; PCRE match limits make pathological expressions fail rather than hang."),
})

CHECKS.update({
 "C19": dict(engine="procx", level=MC, design="§7 C19",
   technique="exhaustive enumeration of the configuration space (full product of INI key values; all one-line configure() argument tuples) with one real child process per configuration and run, outputs captured on pipes / ptys and files read back, against a composed reference model; plus exhaustive enumeration of install/restore/foreign-handler histories up to the depth bound on the real functions against the protocol's reference model",
   text="Every combination of the INI keys over reduced value domains and every one-line configure() tuple is run as a real process that logs a fixed six-message stream through Qt's macros (two runs when a file is configured); per stream the delivered lines must be exactly the messages passing the configured filters, once per configured output, in order, formatted as configured, nothing on unconfigured streams, colour only on terminals when asked, file text = console text minus colour codes. The stream ends with two messages from a second thread; INI configurations are also read from a non-default group next to a decoy [logger] group, with or without another Logger object of the process configured from the decoy group first. Every history of install(A)/install(B)/restore/foreign(F1)/foreign(F2) up to the depth bound is executed on the real handler functions and observed by emitting a message after every step.",
   note="Trusted: the Python rule/regex reference; PrettyFormatter output matched structurally; accept-set {original, interposed} when a foreign handler was installed between two installs."),
})

CHECKS.update({
 "C20": dict(engine="seqx", level=EX, design="§7 C20, §8",
   technique="bounded-exhaustive differential exploration: the explorer spaces of C01 C12 C14 C15 C16 C17 are executed by two builds of each explorer (library sources vs the single header alone) and every case's observed output is compared (digests, first differing case on mismatch); auxiliary exact step, not model checking and reported separately: the project's generator is run on a scratch copy and compared byte for byte",
   text="Every case of six bounded explorer spaces (pipeline trees, pattern x value products, signature and rule token strings, rule lists, filter/counter message sequences, sorted-pipeline call sequences) is executed against the library built from src/ and against /repo/qtlogger.h alone; all observed outputs, case counts and oracle verdicts must be equal. A build-option explorer (SignalSink deliveries over direct and queued connections before/after a handler object exists, message copies) is compared on both distributions with default options and with -DQTLOGGER_NO_THREAD on both sides. Decides the property's behavioural consequence inside those spaces; the byte-for-byte clause is decided by re-running the generator (exact comparison, outside the model-checking family, flagged as such in the evidence).",
   note="Trusted: g++ builds of both distributions with the same flags; clock/thread dependent outputs excluded from digests. The byte comparison cannot raise a false alarm and is kept because a behavioural comparison cannot see drift in unreached code."),
})

PENDING = {}

def main():
    props = [json.loads(l) for l in open(os.path.join(V, "properties.jsonl"))]
    checks = []
    for p in props:
        c = CHECKS.get(p["id"])
        if not c:
            continue
        checks.append({
            "property_id": p["id"],
            "quick_cmd": "python3 bin/check.py %s --tier quick" % p["id"],
            "thorough_cmd": "python3 bin/check.py %s --tier thorough" % p["id"],
            "evidence_file": "/verif/evidence/%s.json" % p["id"],
            "replay_cmd_template": "python3 bin/check.py %s --replay {path}" % p["id"],
            "engine": c["engine"],
            "level_claimed": {"category": c["level"], "text": c["text"], "design_ref": c["design"]},
            "level_note": c["note"],
            "technique": c["technique"],
        })
    na = [{"property_id": p["id"], "reason": PENDING.get(p["id"], "check not built yet in this round (see DESIGN.md for the planned model-checking approach); not claimed until it runs end to end")}
          for p in props if p["id"] not in CHECKS]
    m = {
        "version": 1,
        "setup_cmd": "python3 bin/setup.py",
        "hooks": {"guard": "QTLOGGER_VERIF", "enable": "no source hooks: seams are macro retargeting of Qt threading names (-include engine/vsched/vqt_retarget.h), libc interposition from the harness executable and template instantiation; the guard name is reserved and unused",
                  "baseline_off_cmd": "cmake -G Ninja -S /repo -B /repo/_build >/dev/null && (cmake --build /repo/_build -j16 -- -k 0 >/dev/null; ctest --test-dir /repo/_build -j8 --timeout 900)",
                  "source_commits": [], "add_only": True},
        "engines": [
            {"name": "seqx", "path": "engine/seqx", "serves_properties": sorted(k for k, v in CHECKS.items() if v["engine"] == "seqx"), "kind_free_text": "bounded-exhaustive explorers over operation sequences / inputs of the real classes with reference models"},
            {"name": "vfs", "path": "engine/vfs", "serves_properties": sorted(k for k, v in CHECKS.items() if v["engine"] == "vfs"), "kind_free_text": "history / crash-point / fault explorer over the real file sinks with interposed libc, virtual clock and mtimes"},
            {"name": "vsched", "path": "engine/vsched", "serves_properties": sorted(k for k, v in CHECKS.items() if v["engine"] == "vsched"), "kind_free_text": "preemption-bounded stateless schedule explorer over the real threading code with Qt threading names retargeted to a serialising scheduler"},
            {"name": "procx", "path": "engine/procx", "serves_properties": sorted(k for k, v in CHECKS.items() if v["engine"] == "procx"), "kind_free_text": "enumerated child processes (fatal termination, configuration front-ends, real-Qt shutdown confirmation)"},
        ],
        "checks": checks,
        "not_applicable": na,
        "notes": "All checks rebuild the library from /repo's current working tree (bin/vlib.py, dependency-content keyed). Known findings: known_findings.json. Exit 3 = engine error, never a violation.",
    }
    json.dump(m, open(os.path.join(V, "MANIFEST.json"), "w"), indent=1)
    print("claimed:", [c["property_id"] for c in checks])

if __name__ == "__main__":
    main()
