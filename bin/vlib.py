#!/usr/bin/env python3
"""Shared infrastructure for the /verif checks: incremental build of /repo's *current
working tree* into /verif/build/<flavour>/, evidence writing, known-findings handling.

Nothing here decides a property; it only builds, runs and reports."""
import concurrent.futures
import hashlib
import json
import os
import shlex
import subprocess
import sys
import time

VERIF = os.path.dirname(os.path.dirname(os.path.abspath(__file__)))
REPO = os.environ.get("VERIF_REPO", "/repo")
# Checks always build /repo's working tree into build/. A different tree (VERIF_REPO=<scratch worktree>, used only to try
# the checks against seeded changes without touching /repo) gets its own build, evidence and replay directories so that
# nothing it produces can be mistaken for a result about /repo.
if os.path.realpath(REPO) == "/repo":
    BUILD = os.path.join(VERIF, "build")
    OUT = VERIF
else:
    BUILD = os.path.join(VERIF, "build", "alt-" + hashlib.sha256(os.path.realpath(REPO).encode()).hexdigest()[:10])
    OUT = os.path.join(BUILD, "out")
SRC = os.path.join(REPO, "src", "qtlogger")
NCPU = os.cpu_count() or 4

CXX = os.environ.get("VERIF_CXX", "g++")

QT_CFLAGS = subprocess.run(["pkg-config", "--cflags", "Qt5Core"], capture_output=True, text=True).stdout.split()
QT_LIBS = subprocess.run(["pkg-config", "--libs", "Qt5Core"], capture_output=True, text=True).stdout.split()

BASE_FLAGS = ["-std=c++17", "-fPIC", "-DQTLOGGER_STATIC", "-DQTLOGGER_SYSLOG", "-DQT_MESSAGELOGCONTEXT",
              "-I" + os.path.join(REPO, "src"), "-I" + SRC] + QT_CFLAGS

FLAVOURS = {
    "asan": ["-O1", "-g", "-fsanitize=address,undefined", "-fno-sanitize-recover=undefined",
             "-fno-omit-frame-pointer"],
    "plain": ["-O1", "-g"],
    "tsan": ["-O1", "-g", "-fsanitize=thread"],
}
LINK_FLAVOUR = {
    "asan": ["-fsanitize=address,undefined"],
    "plain": [],
    "tsan": ["-fsanitize=thread"],
}

# platform sources that the Linux cmake build does not compile either
EXCLUDE = ("oslogsink.cpp", "androidlogsink.cpp", "windebugsink.cpp", "httpsink.cpp",
           "hostinfoattrs.cpp", "sdjournalsink.cpp")


class EngineError(Exception):
    pass


def sh(cmd, **kw):
    return subprocess.run(cmd, **kw)


def lib_sources():
    out = []
    for root, _dirs, files in os.walk(SRC):
        if "/build" in root:
            continue
        for f in sorted(files):
            if f.endswith(".cpp") and f not in EXCLUDE:
                out.append(os.path.join(root, f))
    return sorted(out)


def _hash_files(paths, extra):
    h = hashlib.sha256()
    h.update(extra.encode())
    for p in paths:
        try:
            with open(p, "rb") as f:
                h.update(p.encode() + b"\0" + f.read() + b"\0")
        except OSError:
            h.update(p.encode() + b"\0<missing>\0")
    return h.hexdigest()


def _deps(dfile):
    try:
        txt = open(dfile).read()
    except OSError:
        return None
    txt = txt.replace("\\\n", " ")
    if ":" not in txt:
        return None
    deps = shlex.split(txt.split(":", 1)[1])
    # system headers never change inside a run; keep only repo/verif files
    return [d for d in deps if d.startswith(REPO) or d.startswith(VERIF) or not d.startswith("/usr")]


def compile_one(src, obj, flags):
    """Compile src -> obj unless obj is up to date w.r.t. the content of every dependency."""
    dfile = obj + ".d"
    kfile = obj + ".key"
    flagstr = " ".join([CXX] + flags)
    deps = _deps(dfile)
    if deps is not None and os.path.exists(obj) and os.path.exists(kfile):
        if open(kfile).read() == _hash_files(deps, flagstr):
            return False
    os.makedirs(os.path.dirname(obj), exist_ok=True)
    cmd = [CXX] + flags + ["-MMD", "-MF", dfile, "-c", src, "-o", obj]
    r = sh(cmd, capture_output=True, text=True)
    if r.returncode != 0:
        raise EngineError("compile failed: %s\n%s" % (" ".join(cmd), r.stderr[-4000:]))
    deps = _deps(dfile) or [src]
    with open(kfile, "w") as f:
        f.write(_hash_files(deps, flagstr))
    return True


def compile_many(jobs):
    """jobs: list of (src, obj, flags). Parallel. Returns list of objs."""
    with concurrent.futures.ThreadPoolExecutor(max_workers=NCPU) as ex:
        futs = [ex.submit(compile_one, s, o, f) for (s, o, f) in jobs]
        for f in futs:
            f.result()
    return [o for (_s, o, _f) in jobs]


def moc(header, out):
    os.makedirs(os.path.dirname(out), exist_ok=True)
    key = out + ".key"
    k = _hash_files([header], "moc")
    if os.path.exists(out) and os.path.exists(key) and open(key).read() == k:
        return out
    r = sh(["moc"] + [f for f in BASE_FLAGS if f.startswith(("-I", "-D"))] + [header, "-o", out],
           capture_output=True, text=True)
    if r.returncode != 0:
        raise EngineError("moc failed: " + r.stderr)
    open(key, "w").write(k)
    return out


def build_lib(flavour, variant="", extra_flags=(), per_file_flags=None, exclude=()):
    """Compile the library sources found *now* under REPO/src/qtlogger.
    variant names a separate object directory (e.g. for retargeted TUs)."""
    fl = BASE_FLAGS + FLAVOURS[flavour] + list(extra_flags)
    odir = os.path.join(BUILD, flavour + (("-" + variant) if variant else ""), "lib")
    jobs = []
    for s in lib_sources():
        rel = os.path.relpath(s, SRC)
        if rel in exclude or os.path.basename(s) in exclude:
            continue
        f = fl + list((per_file_flags or {}).get(os.path.basename(s), []))
        jobs.append((s, os.path.join(odir, rel.replace("/", "_") + ".o"), f))
    # moc for every header that declares a QObject class (today only sinks/signalsink.h; a change may add more)
    for root, _dirs, files in os.walk(SRC):
        if "/build" in root:
            continue
        for f in sorted(files):
            if not f.endswith(".h") or f in ("oslogsink.h", "androidlogsink.h", "windebugsink.h", "httpsink.h", "hostinfoattrs.h", "sdjournalsink.h"):
                continue
            hp = os.path.join(root, f)
            try:
                if "Q_OBJECT" not in open(hp, errors="replace").read():
                    continue
            except OSError:
                continue
            base = "moc_" + f[:-2]
            mocsrc = moc(hp, os.path.join(odir, base + ".cpp"))
            jobs.append((mocsrc, os.path.join(odir, base + ".o"), fl))
    return compile_many(jobs)


def build_exe(name, sources, flavour, lib_objs, extra_flags=(), link_flags=(), variant=""):
    fl = BASE_FLAGS + FLAVOURS[flavour] + list(extra_flags)
    odir = os.path.join(BUILD, flavour + (("-" + variant) if variant else ""), "exe", name)
    # a source may be given as (path, [extra flags for this file only])
    jobs = []
    for s in sources:
        sp, sf = (s, []) if isinstance(s, str) else s
        jobs.append((sp, os.path.join(odir, os.path.basename(sp) + ".o"), fl + list(sf)))
    objs = compile_many(jobs)
    exe = os.path.join(odir, name)
    key = exe + ".key"
    k = _hash_files(objs + lib_objs, " ".join(link_flags))
    if os.path.exists(exe) and os.path.exists(key) and open(key).read() == k:
        return exe
    cmd = [CXX] + LINK_FLAVOUR[flavour] + objs + lib_objs + QT_LIBS + ["-lpthread"] + list(link_flags) + ["-o", exe]
    r = sh(cmd, capture_output=True, text=True)
    if r.returncode != 0:
        raise EngineError("link failed: %s\n%s" % (" ".join(cmd[:6]), r.stderr[-4000:]))
    open(key, "w").write(k)
    return exe


def src_tree_hash():
    paths = []
    for root, _d, files in os.walk(SRC):
        for f in sorted(files):
            paths.append(os.path.join(root, f))
    return _hash_files(sorted(paths), "tree")[:16]


# ---------------------------------------------------------------- evidence / findings

def seed():
    try:
        return int(os.environ.get("VERIF_SEED", "0"))
    except ValueError:
        return 0


def write_evidence(prop, tier, level, coverage, wall_s, violations, assumptions):
    os.makedirs(os.path.join(OUT, "evidence"), exist_ok=True)
    ev = {
        "property_id": prop, "tier": tier, "seed": seed(), "level": level,
        "coverage": coverage, "assumptions": assumptions, "wall_s": round(wall_s, 2),
        "violations": violations,
    }
    p = os.path.join(OUT, "evidence", prop + ".json")
    tmp = p + ".tmp"
    with open(tmp, "w") as f:
        json.dump(ev, f, indent=1, ensure_ascii=False)
        f.write("\n")
    os.replace(tmp, p)
    return p


def known_findings(prop):
    p = os.path.join(VERIF, "known_findings.json")
    try:
        data = json.load(open(p))
    except OSError:
        return []
    return [e for e in data.get("findings", []) if e.get("property") == prop and e.get("status") == "open"]


def write_replay(prop, name, payload):
    d = os.path.join(OUT, "replays", prop)
    os.makedirs(d, exist_ok=True)
    p = os.path.join(d, name + ".json")
    with open(p, "w") as f:
        json.dump(payload, f, indent=1, ensure_ascii=False)
        f.write("\n")
    return p


def report(prop, violations):
    """violations: list of dicts {key, what, replay(path)}.  Prints KNOWN-FINDING / VIOLATION
    lines. Returns (exit_code, n_unlisted)."""
    known = known_findings(prop)
    kkeys = {e["key"]: e for e in known}
    seen_known = {}
    bad = []
    for v in violations:
        if v["key"] in kkeys:
            seen_known.setdefault(v["key"], v)
        else:
            bad.append(v)
    for k, v in seen_known.items():
        print("KNOWN-FINDING: property=%s %s [key=%s] replay=%s" % (prop, kkeys[k]["what"], k, v.get("replay", "-")))
    for k, e in kkeys.items():
        if k not in seen_known:
            print("note: known finding %s key=%s not reproduced by this run (tier bound?)" % (prop, k))
    shown = set()
    for v in bad:
        if v["key"] in shown:
            continue
        shown.add(v["key"])
        if len(shown) > 5:
            break
        print("VIOLATION property=%s replay=%s" % (prop, v.get("replay", "-")))
        print("  what: %s" % v["what"])
    sys.stdout.flush()
    return (1 if bad else 0), len(bad)


class Timer:
    def __init__(self):
        self.t0 = time.time()

    def s(self):
        return time.time() - self.t0
