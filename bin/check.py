#!/usr/bin/env python3
"""Front-end: check.py <Cxx> [--tier quick|thorough] [--replay FILE]

exit 0  property held on everything explored (KNOWN-FINDING lines may be printed)
exit 1  VIOLATION property=<id> replay=<path>
exit 3  the engine itself failed (build error, replay divergence, conformance failure)
"""
import argparse
import importlib
import os
import sys
import traceback

sys.path.insert(0, os.path.dirname(os.path.abspath(__file__)))
sys.path.insert(0, os.path.join(os.path.dirname(os.path.dirname(os.path.abspath(__file__))), "checks"))
import vlib  # noqa: E402


def main():
    ap = argparse.ArgumentParser()
    ap.add_argument("prop")
    ap.add_argument("--tier", default=os.environ.get("VERIF_TIER", "quick"), choices=["quick", "thorough"])
    ap.add_argument("--replay", default=None)
    a = ap.parse_args()
    os.environ.setdefault("LC_ALL", "C.UTF-8")
    os.environ.setdefault("TZ", "UTC")
    mod = importlib.import_module(a.prop.lower())
    try:
        if a.replay:
            rc = mod.replay(a.replay)
        else:
            rc = mod.run(a.tier)
    except vlib.EngineError as e:
        print("ENGINE-ERROR: %s" % e)
        sys.exit(3)
    except Exception:
        traceback.print_exc()
        print("ENGINE-ERROR: unexpected exception in the checking machinery")
        sys.exit(3)
    sys.exit(rc)


if __name__ == "__main__":
    main()
